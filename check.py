#!/venv/bin/python
"""Entry point of the verification machinery (DESIGN 8).

  check.py <Cxx> [--tier quick|thorough] [--runs N] [--wall S] [--workers W]
  check.py <Cxx> --replay <file>
  check.py --selftest                       (MANIFEST.setup_cmd)
  check.py --digests <Cxx> --seeds a,b,c    (used by the determinism self-test)

Exit 0: property held on everything explored (KNOWN-FINDING lines allowed);
exit 1: 'VIOLATION property=<id> replay=<path>' printed; exit 2: harness broken.
"""

import argparse
import json
import os
import subprocess
import sys
import time

HERE = os.path.dirname(os.path.abspath(__file__))
sys.path.insert(0, HERE)

# One integer decides everything; the driver's own hash salt must not matter, but pin it
# anyway so that an accidental dependency shows up in the self-test (which varies it)
# rather than as flakiness.
if os.environ.get("PYTHONHASHSEED") is None:
    os.environ["PYTHONHASHSEED"] = "0"
    os.execv(sys.executable, [sys.executable] + sys.argv)

from sim import driver, framework, scenarios  # noqa: E402


def cmd_replay(pid, path):
    scn = scenarios.get(pid)
    with open(path) as f:
        rep = json.load(f)
    zp = driver.ZygotePool()
    try:
        xp, history, viols, stats, dg = framework.run_plan(scn, rep["plan"], zp)
    finally:
        zp.close()
    want = rep["violation"]
    hit = [v for v in viols if framework.same_violation(v, want)]
    print(f"replay {path}: digest {'same' if dg == rep.get('digest') else ('not recorded (corpus plan)' if 'digest' not in rep else 'DIFFERENT')}; violations now: {len(viols)}")
    if os.environ.get("VERIF_VERBOSE"):
        for ev in history:
            print("  ", ev[0], ev[1], json.dumps(ev[2])[:160], "->", json.dumps(ev[3])[:200])
    if hit:
        v = hit[0]
        print(f"  clause={v['clause']} unit={v.get('unit')} fingerprint={v.get('fingerprint')} detail={json.dumps(v.get('detail'))[:400]}")
        print(f"VIOLATION property={pid} replay={path}")
        return 1
    print("  the recorded violation does not occur on this tree")
    return 0


def cmd_check(pid, tier, seed, runs, wall, workers):
    scn = scenarios.get(pid)
    t0 = time.time()
    st_seeds = [framework.sub_seed(seed, 10_000_000 + i) for i in range(6 if tier == "quick" else 24)]
    selftest = framework.determinism_selftest(pid, st_seeds, tier, workers or 16)
    if selftest["mismatches"]:
        print(f"HARNESS-ERROR determinism self-test failed for seeds {selftest['mismatches']}")
        return 2
    agg, unlisted, known_hit, wall_s = framework.run_batch(scn, tier, seed, workers=workers, runs=runs, wall=wall)
    path = framework.write_evidence(scn, tier, seed, agg, unlisted, known_hit, time.time() - t0, selftest)
    print(
        f"{pid} tier={tier} seed={seed} runs={agg['evaluations']} inconclusive={agg['inconclusive']} "
        f"schedules={len(agg['schedules'])} nontrivial={len(agg['nontrivial'])} wall={wall_s:.1f}s evidence={path}"
    )
    for k, v in sorted(agg["probes"].items()):
        if v == 0 and tier == "thorough":
            print(f"WARNING probe {k} stuck at zero")
    for kid, (kf, n) in sorted(known_hit.items()):
        print(f"KNOWN-FINDING: property={pid} {kf['what']} (seen {n}x this run)")
    rc = 0
    for key, d in sorted(unlisted.items(), key=lambda kv: str(kv[0])):
        v = d["first"]
        print(
            f"  violation clause={v['clause']} fingerprint={v.get('fingerprint')} count={d['n']} "
            f"run_seed={v.get('run_seed')} min_units={v.get('min_units')} detail={json.dumps(v.get('detail'))[:300]}"
        )
        print(f"VIOLATION property={pid} replay={v.get('replay')}")
        rc = 1
    if agg["harness_errors"]:
        print(f"HARNESS-ERROR {len(agg['harness_errors'])} runs failed in the harness; first:\n{agg['harness_errors'][0]}")
        return 2
    if agg["evaluations"] and agg["inconclusive"] / agg["evaluations"] > 0.02:
        print(f"HARNESS-ERROR {agg['inconclusive']} of {agg['evaluations']} runs inconclusive (> 2 %)")
        return 2
    if agg["evaluations"] == 0:
        print("HARNESS-ERROR no runs executed")
        return 2
    return rc


def cmd_digests(pid, seeds, tier, workers):
    res = framework.determinism_selftest(pid, seeds, tier, workers)
    print(json.dumps({"digests": res["digests"], "mismatches": res["mismatches"]}))
    return 0 if not res["mismatches"] else 2


def cmd_selftest():
    """Determinism across workers, zygote instances, worker counts and driver hash salts."""
    rc = 0
    for pid in scenarios.ALL:
        try:
            scenarios.get(pid)
        except Exception as e:
            print(f"selftest: scenario {pid} unavailable: {e}")
            continue
        seeds = [framework.sub_seed(424242, i) for i in range(int(os.environ.get("VERIF_SELFTEST_N", "40")))]
        outs = []
        for salt, workers in (("0", 16), ("77", 4)):
            env = dict(os.environ, PYTHONHASHSEED=salt)
            p = subprocess.run(
                [sys.executable, os.path.join(HERE, "check.py"), "--digests", pid, "--seeds", ",".join(map(str, seeds)), "--workers", str(workers)],
                env=env,
                capture_output=True,
                text=True,
                timeout=1500,
            )
            line = [ln for ln in p.stdout.splitlines() if ln.startswith("{")]
            if p.returncode != 0 or not line:
                print(f"selftest {pid}: digest run failed (salt {salt}): rc={p.returncode}\n{p.stdout[-2000:]}\n{p.stderr[-2000:]}")
                rc = 2
                break
            outs.append(json.loads(line[-1])["digests"])
        else:
            diff = [s for s in outs[0] if outs[0][s] != outs[1][s]]
            if diff:
                print(f"selftest {pid}: DIGEST MISMATCH across driver salts / worker counts for seeds {diff[:10]}")
                rc = 2
            else:
                print(f"selftest {pid}: {len(seeds)} seeds x (2 zygote instances) x (2 driver salts, 16/4 workers): identical digests")
    return rc


def main():
    ap = argparse.ArgumentParser()
    ap.add_argument("pid", nargs="?")
    ap.add_argument("--tier", default=os.environ.get("VERIF_TIER", "quick"))
    ap.add_argument("--replay")
    ap.add_argument("--runs", type=int)
    ap.add_argument("--wall", type=float)
    ap.add_argument("--workers", type=int)
    ap.add_argument("--selftest", action="store_true")
    ap.add_argument("--digests")
    ap.add_argument("--seeds")
    a = ap.parse_args()
    seed = int(os.environ.get("VERIF_SEED", "1"))
    if a.selftest:
        return cmd_selftest()
    if a.digests:
        return cmd_digests(a.digests, [int(x) for x in a.seeds.split(",")], a.tier, a.workers or 16)
    if not a.pid:
        ap.error("property id required")
    if a.replay:
        return cmd_replay(a.pid, a.replay)
    return cmd_check(a.pid, a.tier, seed, a.runs, a.wall, a.workers)


if __name__ == "__main__":
    sys.exit(main())
