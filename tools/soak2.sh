#!/bin/sh
# thorough tier of selected checks, then a quick-tier soak
for p in $1; do
  VERIF_SEED=3 VERIF_EVIDENCE_DIR=/tmp/soak_ev VERIF_OUT=/tmp/soak_out timeout 3000 /venv/bin/python check.py $p --tier thorough 2>&1 | grep -v conda | grep -E "^C[0-9]+ tier|VIOLATION|violation|KNOWN|HARNESS|Error" | cut -c1-400
  echo "rc-done thorough $p"
done
sh tools/soak.sh "$2"
