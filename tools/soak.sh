#!/bin/sh
# No-false-alarm soak: quick tier of every claimed check under several VERIF_SEEDs.
# usage: tools/soak.sh "2 3 4 5" [tier]
tier=${2:-quick}
for s in $1; do
  for p in C12 C13 C20 C27; do
    VERIF_SEED=$s VERIF_EVIDENCE_DIR=/tmp/soak_ev VERIF_OUT=/tmp/soak_out timeout 3000 /venv/bin/python check.py $p --tier $tier 2>&1 | grep -v conda | grep -E "^C[0-9]+ tier|VIOLATION|violation|KNOWN|selftest|Error|error" | cut -c1-400
    echo "rc-done seed=$s $p"
  done
done
echo SOAKDONE
