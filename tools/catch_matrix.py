#!/venv/bin/python
"""Print the 'which check catches which change' tables for DESIGN.md from
seeded/*/meta.json and sensitivity/RESULTS.json."""
import json
import os

VERIF = os.path.dirname(os.path.dirname(os.path.abspath(__file__)))


def main():
    sd = os.path.join(VERIF, "seeded")
    print("| seeded change (independent sub-agent) | property | needs | tests with change | demo (without / with) | caught by quick check | clause : fingerprint |")
    print("|---|---|---|---|---|---|---|")
    for n in sorted(os.listdir(sd)):
        mp = os.path.join(sd, n, "meta.json")
        if not os.path.exists(mp):
            continue
        m = json.load(open(mp))
        runs = m.get("runs", [])
        last = {}
        tests = demo = ""
        for r in runs:
            if "tests_with_patch" in r:
                tests = r["tests_with_patch"].split(" in ")[0]
                demo = f"{r.get('demo_without_patch_rc')} / {r.get('demo_with_patch_rc')}"
            for pid, c in r["checks"].items():
                last[pid] = (c, r["tier"])
        cell = []
        fps = []
        for pid, (c, tier) in sorted(last.items()):
            cell.append(f"{pid} {tier}: {'**yes**' if c['detected'] else 'no'} ({c['wall_s']} s)")
            for v in c["violations"][:2]:
                parts = dict(p.split("=", 1) for p in v.split(" ") if "=" in p and p.split("=")[0] in ("clause", "fingerprint"))
                fps.append(f"{parts.get('clause')} : {parts.get('fingerprint')}")
        if m.get("status"):
            cell = ["n/a: " + m["status"][:150]]
            fps = []
        print(f"| `{n}` | {m['property']} | {m['needs'][:160]} | {tests} | {demo} | {'; '.join(cell)} | {'; '.join(dict.fromkeys(fps))} |")
    rp = os.path.join(VERIF, "sensitivity", "RESULTS.json")
    if os.path.exists(rp):
        res = json.load(open(rp))
        np_ = os.path.join(VERIF, "sensitivity", "NOTES.json")
        notes = json.load(open(np_)) if os.path.exists(np_) else {}
        print()
        print("| own sensitivity mutant (`sensitivity/*.diff`) | baseline tests with mutant | quick check | first violation |")
        print("|---|---|---|---|")
        for n, r in sorted(res.items()):
            v = r.get("violations") or [""]
            parts = dict(p.split("=", 1) for p in v[0].split(" ") if "=" in p and p.split("=")[0] in ("clause", "fingerprint"))
            verdict = "**caught**" if r.get("detected") else "missed (rc=%s)" % r.get("rc")
            if n in notes and not r.get("detected"):
                verdict = "n/a: " + notes[n]
            print(f"| `{n}` | {r.get('tests','').split(' in ')[0]} | {verdict} | {parts.get('clause','')} : {parts.get('fingerprint','')} |")


if __name__ == "__main__":
    main()
