#!/venv/bin/python
"""Operator-family frequencies of the generated programs (run after every generator change:
an op that never builds is silently dropped by the planner).

  tools/famstats.py [program|pool|c13] [N] [json-cfg]
"""
import collections
import json
import os
import sys

VERIF = os.path.dirname(os.path.dirname(os.path.abspath(__file__)))
sys.path.insert(0, VERIF)
sys.path.insert(0, os.environ.get("VERIF_REPO", "/repo"))
import warnings

warnings.simplefilter("ignore")
from sim import planner, reset  # noqa: E402


def main():
    kind = sys.argv[1] if len(sys.argv) > 1 else "program"
    n = int(sys.argv[2]) if len(sys.argv) > 2 else 100
    cfg0 = json.loads(sys.argv[3]) if len(sys.argv) > 3 else {}
    base = reset.capture()
    cnt = collections.Counter()
    tot = collections.Counter()
    for seed in range(n):
        reset.restore(base)
        p = planner.Planner(seed, dict(cfg0, families=dict(cfg0.get("families", {"flat": True}))), os.environ.get("VERIF_REPO", "/repo"))
        try:
            res = getattr(p, {"program": "program", "pool": "pool_program", "c13": "c13_program"}[kind])()
        except BaseException as ex:  # noqa: B036
            tot["planner-raised:" + type(ex).__name__] += 1
            continue
        tot["programs"] += 1
        tot["ops"] += len(res["ops"])
        tot["forms"] += len(res["forms"])
        tot["derived"] += len(res["derived"])
        tot["rejected"] += p.stats["rejected"]
        seen = set()
        for op in res["ops"]:
            name = op[2] if op[0] == "call" else (op[0] + ":" + str(op[3]) if op[0] == "meth" else op[0])
            cnt[name] += 1
            seen.add(name)
        for s_ in seen:
            tot["prog-with:" + s_] += 1
    print(json.dumps({k: v for k, v in tot.items() if not k.startswith("prog-with:")}))
    for k, v in sorted(cnt.items(), key=lambda kv: -kv[1]):
        print(f"{v:7d}  in {tot['prog-with:' + k]:4d} programs  {k}")


if __name__ == "__main__":
    main()
