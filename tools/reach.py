#!/venv/bin/python
"""Reach measurement: which lines of the tree under test does a scenario's generated
workload execute?  Runs `check.py <Cxx> --tier quick` with VERIF_COVERAGE set (zygotes
record line coverage of ufl/ through sys.monitoring while serving runs), combines the data
files and prints per-file percentages, lowest first, plus the uncovered line ranges of the
files given with --detail.  Evidence and replays of this run go to a scratch directory.
Not a registered command; its output is summarised in DESIGN.md 10.10.

  tools/reach.py C12 [--detail ufl/sorting.py,ufl/form.py] [--wall 60]
"""
import argparse
import glob
import os
import shutil
import subprocess
import sys
import tempfile

VERIF = os.path.dirname(os.path.dirname(os.path.abspath(__file__)))
PY = "/venv/bin/python"


def main():
    ap = argparse.ArgumentParser()
    ap.add_argument("pid")
    ap.add_argument("--tier", default="quick")
    ap.add_argument("--detail", default="")
    ap.add_argument("--keep")
    ap.add_argument("--wall")
    a = ap.parse_args()
    tmp = tempfile.mkdtemp(prefix="reach_")
    try:
        env = dict(
            os.environ,
            VERIF_COVERAGE=tmp,
            VERIF_EVIDENCE_DIR=os.path.join(tmp, "ev"),
            VERIF_OUT=os.path.join(tmp, "out"),
            COVERAGE_CORE="sysmon",
        )
        cmd = [PY, os.path.join(VERIF, "check.py"), a.pid, "--tier", a.tier] + (["--wall", a.wall] if a.wall else [])
        p = subprocess.run(cmd, env=env, capture_output=True, text=True)
        print("\n".join(l for l in p.stdout.splitlines() if "conda" not in l)[:400])
        import coverage

        files = glob.glob(os.path.join(tmp, "cov.*"))
        cov = coverage.Coverage(data_file=os.path.join(tmp, "combined"), config_file=False)
        cov.combine(files, keep=True)
        cov.save()
        rows = []
        repo = os.path.realpath(os.environ.get("VERIF_REPO", "/repo"))
        for root, _, fs in os.walk(os.path.join(repo, "ufl")):
            for f in fs:
                if not f.endswith(".py"):
                    continue
                path = os.path.join(root, f)
                try:
                    _, stmts, _, missing, _ = cov.analysis2(path)
                except Exception:
                    continue
                # executable statements inside functions only matter; module-level lines ran
                # at import, before measurement started, and count as missing here, so report
                # the absolute number of executed lines as well
                # only statements inside function bodies count: module- and class-level
                # lines ran at import, before measurement started
                import ast

                body = set()
                for node in ast.walk(ast.parse(open(path).read())):
                    if isinstance(node, (ast.FunctionDef, ast.AsyncFunctionDef)):
                        for st in node.body:
                            if isinstance(st, ast.Expr) and isinstance(getattr(st, "value", None), ast.Constant) and isinstance(st.value.value, str):
                                continue
                            body.update(range(st.lineno, (st.end_lineno or st.lineno) + 1))
                stmts = [x for x in stmts if x in body]
                missing = [x for x in missing if x in body]
                n = len(stmts)
                hit = n - len(missing)
                rows.append((hit / n if n else 1.0, hit, n, os.path.relpath(path, repo), missing))
        rows.sort()
        print(f"{'file':55s} lines-hit / executable")
        for frac, hit, n, rel, _ in rows:
            print(f"{rel:55s} {hit:5d} / {n:5d}  {100 * frac:5.1f}%")
        det = [d for d in a.detail.split(",") if d]
        for frac, hit, n, rel, missing in rows:
            if rel in det:
                print(f"\n== {rel}: missing lines")
                src = open(os.path.join(repo, rel)).read().splitlines()
                for ln in missing:
                    t = src[ln - 1].strip()
                    if t.startswith(("def ", "class ", "@", "import ", "from ", '"""')) or not t:
                        continue
                    print(f"  {ln:5d}: {src[ln - 1][:110]}")
        if a.keep:
            shutil.copy(os.path.join(tmp, "combined"), a.keep)
    finally:
        shutil.rmtree(tmp, ignore_errors=True)


if __name__ == "__main__":
    main()
