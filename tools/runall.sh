#!/bin/sh
# Full pass: every seeded change and every own mutant against the registered quick checks.
# Results land in seeded/*/meta.json and sensitivity/RESULTS.json.  Not a registered command.
cd /verif
for d in seeded/*/; do
  timeout 3000 /venv/bin/python tools/run_seeded.py "$d" >> /tmp/runall.log 2>&1
  echo "done $d" >> /tmp/runall.log
done
timeout 10000 /venv/bin/python tools/run_sensitivity.py >> /tmp/runall.log 2>&1
echo ALLDONE >> /tmp/runall.log
