#!/venv/bin/python
"""Apply each diff in /verif/sensitivity to a scratch worktree (never /repo), confirm the
baseline tests still pass, and run the quick check of the property the mutant targets.
Writes /verif/sensitivity/RESULTS.json.  Not used by any registered command."""
import json
import os
import subprocess
import sys
import tempfile
import time

VERIF = os.path.dirname(os.path.dirname(os.path.abspath(__file__)))
PY = "/venv/bin/python"


def sh(cmd, **kw):
    p = subprocess.run(cmd, capture_output=True, text=True, **kw)
    return p.returncode, "\n".join(l for l in (p.stdout + p.stderr).splitlines() if "conda" not in l)


def main():
    only = sys.argv[1:]
    sd = os.path.join(VERIF, "sensitivity")
    resp = os.path.join(sd, "RESULTS.json")
    results = json.load(open(resp)) if os.path.exists(resp) else {}
    tmp = tempfile.mkdtemp(prefix="senswt_")
    wt = os.path.join(tmp, "wt")
    rc, out = sh(["git", "-C", "/repo", "worktree", "add", "-f", "--detach", wt, "HEAD"])
    assert rc == 0, out
    try:
        for f in sorted(os.listdir(sd)):
            if not f.endswith(".diff"):
                continue
            name = f[:-5]
            if only and not any(o in name for o in only):
                continue
            pid = name.split("-")[0]
            sh(["git", "-C", wt, "checkout", "-q", "--", "."])
            rc, out = sh(["git", "-C", wt, "apply", os.path.join(sd, f)])
            if rc != 0:
                results[name] = {"error": "patch does not apply"}
                continue
            rc, out = sh(f"cd {wt} && timeout 1500 {PY} -m pytest -q -p no:cacheprovider -n 8 test/ 2>&1 | tail -1", shell=True)
            tests = out.strip().splitlines()[-1] if out.strip() else ""
            env = dict(os.environ, VERIF_REPO=wt, VERIF_EVIDENCE_DIR=os.path.join(tmp, "ev"), VERIF_OUT=os.path.join(tmp, "out"))
            t0 = time.time()
            rc, out = sh([PY, os.path.join(VERIF, "check.py"), pid, "--tier", "quick"], env=env, timeout=3600)
            lines = out.splitlines()
            results[name] = {
                "tests": tests,
                "rc": rc,
                "detected": rc == 1,
                "wall_s": round(time.time() - t0, 1),
                "violations": [l.strip()[:300] for l in lines if l.strip().startswith("violation ")][:5],
                "summary": lines[0][:200] if lines else "",
            }
            print(name, results[name]["tests"], "detected" if rc == 1 else f"rc={rc}", flush=True)
            json.dump(results, open(resp, "w"), indent=1)
    finally:
        sh(["git", "-C", "/repo", "worktree", "remove", "--force", wt])
        sh(["rm", "-rf", tmp])


if __name__ == "__main__":
    main()
