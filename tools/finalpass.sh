#!/bin/sh
# Clean full pass on a quiet machine: every seeded change (confirmation of tests/demo was
# recorded when it was imported, so --skip-tests) and every own mutant against the
# registered quick checks of the committed machinery.  Results: seeded/*/meta.json,
# sensitivity/RESULTS.json.  Not a registered command.
cd /verif
rm -f /tmp/finalpass.log
for d in seeded/*/; do
  timeout 3000 /venv/bin/python tools/run_seeded.py "$d" --skip-tests >> /tmp/finalpass.log 2>&1
  echo "done $d" >> /tmp/finalpass.log
done
echo ALLDONE >> /tmp/finalpass.log
