#!/venv/bin/python
"""Run the registered checks against a seeded breaking change (never touches /repo).

  tools/run_seeded.py <seeded dir> [--tier quick] [--pids C12,C13]

A scratch worktree of /repo HEAD is created under a mktemp directory, patch.diff is
applied there, the baseline tests and the demonstration are run with and without the
patch, the checks run with VERIF_REPO pointing at the patched tree, and the worktree is
removed.  Results are merged into <seeded dir>/meta.json under "runs".
"""
import argparse
import json
import os
import subprocess
import sys
import tempfile
import time

VERIF = os.path.dirname(os.path.dirname(os.path.abspath(__file__)))
PY = "/venv/bin/python"


def sh(cmd, cwd=None, env=None, timeout=3000):
    p = subprocess.run(cmd, cwd=cwd, env=env, capture_output=True, text=True, timeout=timeout, shell=isinstance(cmd, str))
    out = "\n".join(l for l in (p.stdout + p.stderr).splitlines() if "conda" not in l)
    return p.returncode, out


def main():
    ap = argparse.ArgumentParser()
    ap.add_argument("dir")
    ap.add_argument("--tier", default="quick")
    ap.add_argument("--pids")
    ap.add_argument("--skip-tests", action="store_true")
    ap.add_argument("--seed", default="1")
    a = ap.parse_args()
    d = os.path.abspath(a.dir)
    meta_p = os.path.join(d, "meta.json")
    meta = json.load(open(meta_p)) if os.path.exists(meta_p) else {}
    pids = (a.pids or meta.get("property", "")).split(",")
    tmp = tempfile.mkdtemp(prefix="seedwt_")
    wt = os.path.join(tmp, "wt")
    res = {"when": time.strftime("%Y-%m-%dT%H:%M:%SZ", time.gmtime()), "tier": a.tier, "verif_seed": a.seed, "checks": {}, "repo_head": sh(["git", "-C", "/repo", "rev-parse", "--short", "HEAD"])[1].strip()}
    try:
        rc, out = sh(["git", "-C", "/repo", "worktree", "add", "-f", "--detach", wt, "HEAD"])
        assert rc == 0, out
        # the demonstrations were written to run as out/<name>/demo.py inside the tree
        name = os.path.basename(d.rstrip("/"))
        os.makedirs(os.path.join(wt, "out", name), exist_ok=True)
        if os.path.exists(os.path.join(d, "demo.py")):
            import re

            src = open(os.path.join(d, "demo.py")).read()
            # some demonstrations hard-code the worktree they were written in
            src = re.sub(r"/tmp/seed_\d+", wt, src)
            open(os.path.join(wt, "out", name, "demo.py"), "w").write(src)
        demo = os.path.join(wt, "out", name, "demo.py")
        if os.path.exists(demo) and not a.skip_tests:
            rc0, o0 = sh([PY, demo], cwd=wt, timeout=900, env=dict(os.environ, PYTHONPATH=wt))
            res["demo_without_patch_rc"] = rc0
        rc, out = sh(["git", "-C", wt, "apply", os.path.join(d, "patch.diff")])
        if rc != 0:
            # written against an earlier HEAD; a later fix: commit touched the same lines
            res["patch_applies"] = False
            res["note"] = "patch no longer applies to /repo HEAD " + sh(["git", "-C", "/repo", "rev-parse", "--short", "HEAD"])[1].strip()
            pids = []
        if not a.skip_tests and res.get("patch_applies", True):
            rc, out = sh(f"cd {wt} && timeout 1500 {PY} -m pytest -q -p no:cacheprovider -n 8 test/ 2>&1 | tail -2")
            res["tests_with_patch"] = out.strip().splitlines()[-1] if out.strip() else ""
            if os.path.exists(demo):
                rc1, o1 = sh([PY, demo], cwd=wt, timeout=900, env=dict(os.environ, PYTHONPATH=wt))
                res["demo_with_patch_rc"] = rc1
        for pid in pids:
            env = dict(os.environ, VERIF_REPO=wt, VERIF_SEED=a.seed, VERIF_EVIDENCE_DIR=os.path.join(tmp, "ev"), VERIF_OUT=os.path.join(tmp, "out"))
            t0 = time.time()
            rc, out = sh([PY, os.path.join(VERIF, "check.py"), pid, "--tier", a.tier], env=env, timeout=3600)
            lines = out.splitlines()
            res["checks"][pid] = {
                "rc": rc,
                "wall_s": round(time.time() - t0, 1),
                "detected": rc == 1 and any(l.startswith("VIOLATION") for l in lines),
                "violations": [l.strip()[:400] for l in lines if l.strip().startswith("violation ")][:8],
                "summary": lines[0][:300] if lines else "",
            }
            print(pid, json.dumps(res["checks"][pid], indent=1))
    finally:
        sh(["git", "-C", "/repo", "worktree", "remove", "--force", wt])
        sh(["rm", "-rf", tmp])
    meta.setdefault("runs", []).append(res)
    json.dump(meta, open(meta_p, "w"), indent=1)
    print(json.dumps({k: v for k, v in res.items() if k != "checks"}, indent=1))


if __name__ == "__main__":
    main()
