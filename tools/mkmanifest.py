import json, sys
sys.path.insert(0, "/verif")
props = [json.loads(l) for l in open("/verif/properties.jsonl")]
baseline = json.load(open("/root/.vp/BASELINE.json"))["cmd"]
NA = {
 "C01": "pure map form x keyword options -> integrands ('configurations' are call arguments, not process configuration); no schedule, clock, fault, process state or history on the path; needs input generation + pointwise numerical oracle, not simulation",
 "C02": "pure function of its input; oracle is a finite-difference directional derivative; nothing for a scheduler or fault injector to vary",
 "C03": "pure function of its input; oracle is numerical spatial differentiation of terminals; no history/schedule/fault dependence",
 "C04": "pure function of its input; oracle is a numerical partial derivative w.r.t. the variable's value",
 "C05": "pure constructors; oracle is dense tensor arithmetic on operand values; no process state involved",
 "C06": "pure rewriting; oracle is dense linear algebra on operand values",
 "C07": "pure; oracle is geometry computed from vertex coordinates",
 "C08": "pure; oracle is the push-forward formula applied numerically",
 "C09": "pure rewriting; oracle is numerical evaluation before/after",
 "C10": "pure rewriting of one expression; the transformer's variable cache lives and dies inside one call",
 "C11": "a statement about pairs of inputs (collisions); the cached signature is write-once on an immutable form; the cross-process face of signatures is C12",
 "C14": "pure predicate; oracle is numerical multilinearity testing",
 "C15": "pure map form x option; a wrong merge needs a particular input, not a schedule; order effects across processes are C12's",
 "C16": "pure; oracle is numerical evaluation of both sides",
 "C17": "pure; 'side assignments' are inputs to an evaluation oracle, not schedules",
 "C18": "pure; oracle is exact polynomial degree",
 "C19": "pure traversal/mapping of one DAG with one handler table; its dispatch rule is reused as the reference model of C20 but C19 itself has no history",
 "C21": "pure substitution; oracle is numerical evaluation",
 "C22": "pure; oracle is numerical evaluation of block sums",
 "C23": "pure map integrand x mode flag",
 "C24": "pure evaluation; oracle is independent arithmetic",
 "C25": "finite algebraic structure, exhaustively enumerable; no state",
 "C26": "finite table, exhaustively enumerable; no state",
 "C28": "pure constructors/simplifiers; oracle is assembly on a finite-dimensional model",
 "C29": "pure: both operand orders are built under the same process state, so counters and salts cancel; falsified only by a particular operand pair",
}
CHECKS = {
 "C12": dict(design="4.1", technique="deterministic simulation: replicated build of one seeded form program on N simulated UFL processes (hash salts, counter histories, cache warmth, aborted/interrupted noise ops, observations and algorithms on the program's own objects at other times, checkpoint-crash-restart-reload under the same or another hash seed); signatures compared across replicas",
   text="Seeded search over process histories and configurations: every run builds the same generated form program on a pristine reference node and on perturbed nodes (other PYTHONHASHSEED, shifted creation counters incl. digit boundaries, warmed caches, interleaved noise constructions, interrupted/aborted noise ops incl. injected allocation failures, foreign objects with explicit ids/counts, read-only observations and public algorithms applied to the program's own objects at other times, second build in the same process, checkpoint of everything built so far + crash + restart as a fresh process + reload) and requires identical signatures of constructed and derived forms. Sampling, not proof.",
   note="Trusts: element stubs (sim/elements.py) with salt-independent reprs; the planner's well-typedness facts; CPython. Signatures are compared only between replicas of the same program, so no external oracle is trusted."),
 "C13": dict(design="4.2", technique="deterministic simulation: object pools on several simulated processes, seeded comparison/hash/repr/pickle histories, pickles over a simulated transport with dup/reorder/delay/crash-restart; equivalence/coherence clauses as invariants",
   text="Seeded histories of comparisons, hashing, set lookups, pickling, eval(repr) and cross-process shipping (duplication, reordering, delay, crash and restart of nodes with different hash salts, interrupts and allocation failures inside comparisons, rejected constructor calls, no-op simplifications that re-initialise pool members, form arithmetic on members with a history) over pools of generated expressions/forms and near-duplicates; invariants E0-E8 (equivalence, == implies equal hash/repr/shape/signature/value, stability of snapshots, round trips) after every step. Sampling, not proof.",
   note="Trusts: element stubs with class-faithful, eval-able reprs; UFL's own point evaluator used differentially only; NaN literals excluded."),
 "C20": dict(design="4.3", technique="deterministic simulation: seeded interleavings of type registration / algorithm instantiation (incl. interrupted) / application, checked against an MRO reference model and a types-first twin process",
   text="Seeded interleavings of registering new Expr types (abstract or concrete bases, subclasses of concrete geometric quantities and compound operators, two UFL bases), defining/instantiating/dropping MultiFunction-, Transformer- and DAGTraverser-based algorithm classes (first instantiation or a dispatch optionally cut short by an injected interrupt, allocation failure or stack squeeze), registering DAGTraverser rules late, and applying old and new instances - harness classes and long-lived instances of UFL's own algorithm classes - to old and new types; every dispatch is compared with a nearest-ancestor reference model and with a twin process that registered all types first. Sampling, not proof.",
   note="Trusts: the reference model of the dispatch rule; new types are well-formed @ufl_type classes (a rejected registration is outside the statement)."),
 "C27": dict(design="4.4", technique="deterministic simulation: shared object pool + immutable snapshot model; seeded sequences of public algorithms/form operators incl. naturally aborting, interrupted and stack-exhausted ones; snapshots compared after every step",
   text="Seeded sequences of public algorithms and form operators over a pool of forms/expressions/metadata dicts that share sub-DAGs and measures, with operations that abort naturally, are interrupted at a seeded UFL line event or run out of stack or memory; base forms (FormSum, Matrix, Action, Adjoint, base form operators) included; after every step the snapshot (repr, hash, cached and from-scratch signature, arguments, coefficients, constants, integral metadata) of every earlier object must be unchanged. Sampling, not proof.",
   note="Trusts: snapshot functions read-only; element stubs."),
}
def manifest(claimed):
    m = {
     "version": 1,
     "setup_cmd": "/venv/bin/python /verif/check.py --selftest",
     "hooks": {
       "guard": "FENICS_UFL_VERIF",
       "enable": "none needed: every seam is pre-existing (PYTHONHASHSEED at exec, counter class attributes, @ufl_type, sys.settrace, sys.setrecursionlimit, pickle); no hook was added to /repo, the guard name is reserved only",
       "baseline_off_cmd": baseline,
       "source_commits": [],
       "add_only": True,
     },
     "engines": [{"name": "ufl-detsim", "path": "/verif/sim", "serves_properties": claimed,
                  "kind_free_text": "seeded deterministic simulator: driver + per-PYTHONHASHSEED zygote interpreters forking (or soft-resetting) UFL node processes, JSON op language, fault injection via settrace/recursion limit/pickle transport/crash-restart/counter jumps, ddmin minimiser, replay files"}],
     "checks": [],
     "notes": "exit 2 = harness broken (determinism self-test failed, >2% inconclusive runs); fix commits to /repo are listed in known_findings.json",
     "not_applicable": [],
    }
    for pid in claimed:
        c = CHECKS[pid]
        m["checks"].append({
          "property_id": pid,
          "quick_cmd": f"/venv/bin/python /verif/check.py {pid} --tier quick",
          "thorough_cmd": f"/venv/bin/python /verif/check.py {pid} --tier thorough",
          "evidence_file": f"/verif/evidence/{pid}.json",
          "replay_cmd_template": f"/venv/bin/python /verif/check.py {pid} --replay {{path}}",
          "engine": "ufl-detsim",
          "level_claimed": {"category": "exploration", "text": c["text"], "design_ref": "DESIGN.md section " + c["design"]},
          "level_note": c["note"],
          "technique": c["technique"],
        })
    for p in props:
        if p["id"] in claimed: continue
        if p["id"] in NA:
            m["not_applicable"].append({"property_id": p["id"], "reason": NA[p["id"]]})
        else:
            m["not_applicable"].append({"property_id": p["id"], "reason": "claimed in DESIGN.md; its check is still being built in this session (simulation target: depends on process history/configuration)"})
    return m
claimed = sys.argv[1].split(",")
json.dump(manifest(claimed), open("/verif/MANIFEST.json", "w"), indent=1)
print("ok", claimed)
