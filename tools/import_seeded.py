#!/venv/bin/python
"""Copy a sub-agent's candidate change (<worktree>/out/<name>/{patch.diff,demo.py,README.md})
into /verif/seeded/<name>/ and write a meta.json skeleton.  tools/run_seeded.py then
confirms it (patch applies, tests green, demo 0/1) and runs the registered check.

  tools/import_seeded.py /tmp/seed_45 C20-foo "needs text" [wave]
"""
import json
import os
import shutil
import sys

VERIF = os.path.dirname(os.path.dirname(os.path.abspath(__file__)))


def main():
    wt, name, needs = sys.argv[1:4]
    wave = sys.argv[4] if len(sys.argv) > 4 else "4"
    src = os.path.join(wt, "out", name)
    dst = os.path.join(VERIF, "seeded", name)
    os.makedirs(dst, exist_ok=True)
    for f in ("patch.diff", "demo.py", "README.md"):
        if os.path.exists(os.path.join(src, f)):
            shutil.copy(os.path.join(src, f), os.path.join(dst, f))
    mp = os.path.join(dst, "meta.json")
    meta = json.load(open(mp)) if os.path.exists(mp) else {}
    meta.update({"property": name.split("-")[0], "needs": needs, "source": f"independent sub-agent, wave {wave}; given only the property text and its own scratch worktree"})
    json.dump(meta, open(mp, "w"), indent=1)
    print("imported", dst)


if __name__ == "__main__":
    main()
