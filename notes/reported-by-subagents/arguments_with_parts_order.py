"""Genuine defect of the UNMODIFIED tree (no patch applied).

Form._analyze_form_arguments does
    self._arguments = tuple(sorted(set(arguments), key=lambda x: x.number()))
The key ignores part(), so for arguments from a MixedFunctionSpace (same
number, different part) the order is the iteration order of a set of
Arguments, whose hash is hash(repr) and hence depends on PYTHONHASHSEED.
Form.arguments() is therefore ordered differently from process to process,
and action(a) (coefficient=None) creates its replacement Coefficients in that
order, so action(a).signature() depends on PYTHONHASHSEED.
"""

import os
import subprocess
import sys

ROOT = os.path.dirname(os.path.dirname(os.path.dirname(os.path.abspath(__file__))))
sys.path.insert(0, ROOT)
sys.path.insert(0, os.path.join(ROOT, "test"))

if "--child" in sys.argv:
    import ufl

    assert os.path.abspath(ufl.__file__).startswith(ROOT + os.sep)
    from utils import LagrangeElement

    from ufl import (
        FunctionSpace,
        Mesh,
        MixedFunctionSpace,
        TestFunctions,
        TrialFunctions,
        action,
        div,
        dx,
        grad,
        inner,
        triangle,
    )

    mesh = Mesh(LagrangeElement(triangle, 1, (2,)))
    V = FunctionSpace(mesh, LagrangeElement(triangle, 2, (2,)))
    Q = FunctionSpace(mesh, LagrangeElement(triangle, 1))
    W = MixedFunctionSpace(V, Q)
    u, p = TrialFunctions(W)
    v, q = TestFunctions(W)
    a = inner(grad(u), grad(v)) * dx + div(v) * p * dx + div(u) * q * dx
    print([(x.number(), x.part()) for x in a.arguments()], action(a).signature()[:16])
else:
    outs = set()
    for seed in ("0", "1", "2", "3", "4", "5"):
        env = dict(os.environ, PYTHONHASHSEED=seed)
        p = subprocess.run(
            [sys.executable, os.path.abspath(__file__), "--child"],
            env=env, capture_output=True, text=True, timeout=600,
        )
        assert p.returncode == 0, p.stderr
        line = [ln for ln in p.stdout.splitlines() if ln.startswith("[")][-1]
        print(f"PYTHONHASHSEED={seed}: {line}")
        outs.add(line)
    assert len(outs) == 1, "Form.arguments() order / action(a).signature() depend on PYTHONHASHSEED"
