"""Genuine defect of the UNMODIFIED tree (no patch applied).

A Zero that carries free indices is a ConstantValue without its own
_ufl_signature_data_, so Terminal._ufl_signature_data_ is used: repr(self) ==
"Zero((), (14,), (2,))", which embeds the RAW index counts.  Such a Zero
survives e.g. as a branch of a Conditional, both when written by the user
(0*u[i]) and when produced by expand_derivatives.  Form.signature() then
depends on the value of the global Index counter.
(compute_form_data(...).preprocessed_form is not affected, because
group_form_integrals renumbers the indices.)
"""

import os
import sys

ROOT = os.path.dirname(os.path.dirname(os.path.dirname(os.path.abspath(__file__))))
sys.path.insert(0, ROOT)
sys.path.insert(0, os.path.join(ROOT, "test"))
import ufl  # noqa: E402

assert os.path.abspath(ufl.__file__).startswith(ROOT + os.sep)
from utils import LagrangeElement  # noqa: E402

from ufl import (  # noqa: E402
    Coefficient,
    FunctionSpace,
    Index,
    Mesh,
    TestFunction,
    conditional,
    derivative,
    dx,
    lt,
    triangle,
)
from ufl.algorithms import expand_derivatives  # noqa: E402


def build():
    mesh = Mesh(LagrangeElement(triangle, 1, (2,)))
    V = FunctionSpace(mesh, LagrangeElement(triangle, 1, (2,)))
    u, w, v = Coefficient(V), Coefficient(V), TestFunction(V)
    i = Index()
    F1 = conditional(lt(u[0], 0), u[i], 0 * u[i]) * v[i] * dx
    F2 = conditional(lt(w[0], 0), u[i], w[i]) * v[i] * dx
    return F1.signature(), expand_derivatives(derivative(F2, u)).signature()


a = build()
Index()  # shift the global index counter by one
b = build()
print("user written 0*u[i] in a conditional: ", a[0] == b[0])
print("expand_derivatives(derivative(..., u)):", a[1] == b[1])
assert a == b, "signature depends on the raw Index counter"
