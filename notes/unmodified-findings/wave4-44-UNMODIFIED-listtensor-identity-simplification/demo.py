"""UNMODIFIED tree: ListTensor.__new__ simplifies by object identity, which == changes."""
import pickle
import sys

sys.path.insert(0, "/tmp/seed_44")
sys.path.insert(0, "/tmp/seed_44/test")

import ufl  # noqa: E402, F401
from ufl import *  # noqa: E402, F403
from ufl.classes import *  # noqa: E402, F403
from ufl.pullback import *  # noqa: E402, F403
from ufl.sobolevspace import *  # noqa: E402, F403
import utils  # noqa: E402, F401
from utils import FiniteElement  # noqa: E402

print("ufl from", ufl.__file__)
P1 = FiniteElement("Lagrange", triangle, 1, (), identity_pullback, H1)
P1v = FiniteElement("Lagrange", triangle, 1, (2,), identity_pullback, H1)
mesh = Mesh(P1v)
problems = []

V = FunctionSpace(mesh, P1)
u = Coefficient(V)
A1, A2 = grad(u), grad(u)  # equal, distinct objects
P1_, P2_, Q2_ = A1[0], A2[0], A2[1]

# (i) equal expressions are not interchangeable as constructor arguments
A3, A4 = grad(u), grad(u)
X, Y = as_vector([A3[0], A4[1]]), as_vector([A4[0], A4[1]])
if not (X == Y):
    problems.append(
        f"A3[0] == A4[0] but as_vector([A3[0], A4[1]]) is a {type(X).__name__} and "
        f"as_vector([A4[0], A4[1]]) is a {type(Y).__name__}; they are != and have different repr"
    )

# (ii) history: a comparison changes what a later constructor call returns
L = as_vector([P1_, Q2_])
r0 = repr(L)
before = pickle.loads(pickle.dumps(L)) == L
assert P1_ == P2_  # a successful == re-points P1_.ufl_operands to P2_'s operands
Lb = as_vector([P1_, Q2_])  # same call, same arguments as for L
if type(Lb) is not type(L) or not (Lb == L):
    problems.append(
        f"as_vector([P1, Q2]) returned a {type(L).__name__} before `P1 == P2` was evaluated "
        f"and a {type(Lb).__name__} afterwards (results are != each other)"
    )
# (iii) ... and L, which pickled fine before the comparison, no longer does
try:
    L2 = pickle.loads(pickle.dumps(L))
    if not (L2 == L and repr(L2) == r0):
        problems.append("pickle round trip of L is not equal to L after the comparison")
except Exception as e:  # noqa: BLE001
    problems.append(
        f"pickle round trip of L worked before `P1 == P2` ({before}) and raises afterwards: "
        f"{type(e).__name__}: {e}"
    )

if problems:
    print("C13 VIOLATED (unmodified tree):")
    for p in problems:
        print("  -", p)
    sys.exit(1)
print("ok")
sys.exit(0)

