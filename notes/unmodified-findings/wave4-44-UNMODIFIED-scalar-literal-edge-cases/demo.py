"""UNMODIFIED tree: scalar literal edge cases (signed zero in complex, nan, inf, bool index)."""
import pickle
import sys

sys.path.insert(0, "/tmp/seed_44")
sys.path.insert(0, "/tmp/seed_44/test")

import ufl  # noqa: E402, F401
from ufl import *  # noqa: E402, F403
from ufl.classes import *  # noqa: E402, F403
from ufl.pullback import *  # noqa: E402, F403
from ufl.sobolevspace import *  # noqa: E402, F403
import utils  # noqa: E402, F401
from utils import FiniteElement  # noqa: E402

print("ufl from", ufl.__file__)
P1 = FiniteElement("Lagrange", triangle, 1, (), identity_pullback, H1)
P1v = FiniteElement("Lagrange", triangle, 1, (2,), identity_pullback, H1)
mesh = Mesh(P1v)
problems = []

a, b = ComplexValue(complex(-0.0, 1.0)), ComplexValue(1j)
if a == b and (repr(a) != repr(b) or hash(a) != hash(b)):
    problems.append(f"{a!r} == {b!r} but repr/hash differ")
c = eval(repr(a))
if c == a and (repr(c) != repr(a) or hash(c) != hash(a)):
    problems.append(f"eval(repr({a!r})) is {c!r}: == but different repr and hash")
n = FloatValue(float("nan"))
if not (n == n):
    problems.append("FloatValue(nan) != itself (== not reflexive)")
if not (pickle.loads(pickle.dumps(n)) == n):
    problems.append("pickle round trip of FloatValue(nan) is not equal")
for x in (FloatValue(float("nan")), FloatValue(float("inf")), FloatValue(float("-inf"))):
    try:
        if not (eval(repr(x)) == x):
            problems.append(f"eval(repr({x!r})) != original")
    except Exception as e:  # noqa: BLE001
        problems.append(f"eval({repr(x)!r}) raises {type(e).__name__}: {e}")
# bool is an int: the first creator of FixedIndex(1) decides its repr for the whole process
w = Coefficient(FunctionSpace(mesh, P1v))
first = w[True]
later = w[1]
if "True" in repr(later):
    problems.append(f"after w[True], repr(w[1]) is {repr(later)[-45:]!r} (flyweight keyed by ==)")

if problems:
    print("C13 VIOLATED (unmodified tree):")
    for p in problems:
        print("  -", p)
    sys.exit(1)
print("ok")
sys.exit(0)

