"""UNMODIFIED tree: a collection of small C13 violations that need an unusual
but legal input or a narrow pair.  Every check is independent.

exit 1 = at least one violated (this is what happens on the unmodified tree).
"""
import os
import sys

ROOT = os.getcwd()
sys.path.insert(0, ROOT)
sys.path.insert(0, os.path.join(ROOT, "test"))

import numpy as np  # noqa: E402

import ufl  # noqa: E402
import ufl.classes  # noqa: E402
import utils  # noqa: E402
from ufl import (  # noqa: E402
    Argument, Coargument, Coefficient, Cofunction, Constant, FunctionSpace, Mesh, TestFunction, dx, triangle,
)
from ufl.classes import FixedIndex, FloatValue, FormSum, ZeroBaseForm  # noqa: E402
from ufl.finiteelement import AbstractFiniteElement  # noqa: E402, F401
from ufl.pullback import identity_pullback  # noqa: E402
from ufl.sobolevspace import H1  # noqa: E402
from utils import FiniteElement  # noqa: E402

NS = {**vars(ufl), **vars(ufl.classes), "utils": utils}
print("ufl from", ufl.__file__)


def P(k, shape=()):
    # utils.FiniteElement reprs evaluate to the same type (LagrangeElement's do not)
    return FiniteElement("Lagrange", triangle, k, shape, identity_pullback, H1)


mesh = Mesh(P(1, (2,)), ufl_id=1)
V = FunctionSpace(mesh, P(1))
f = Coefficient(V, 1)
v = TestFunction(V)
problems = []


def check(name):
    def deco(fn):
        try:
            msg = fn()
        except Exception as e:  # noqa: BLE001
            msg = "raised %s: %s" % (type(e).__name__, e)
        if msg:
            problems.append("%s: %s" % (name, msg))
        return fn
    return deco


@check("1 FloatValue(nan) reflexivity")
def _():
    x = FloatValue(float("nan"))
    return None if x == x else "x == x is False for x = FloatValue(nan) (and hash(x) == hash(x))"


@check("2 FloatValue(inf) eval(repr)")
def _():
    x = FloatValue(float("inf"))
    return None if eval(repr(x), dict(NS)) == x else "not equal"


@check("3 FunctionSpace label is not in repr")
def _():
    Va = FunctionSpace(mesh, P(1), label="a")
    if Va == V:
        return "label ignored by =="
    out = []
    if repr(Va) == repr(V):
        out.append("V(label='a') != V but same repr")
    if not (eval(repr(Va), dict(NS)) == Va):
        out.append("eval(repr(Va)) != Va")
    ca = Coefficient(Va, 5)
    if not (eval(repr(ca), dict(NS)) == ca):
        out.append("eval(repr(Coefficient(Va, 5))) != Coefficient(Va, 5)")
    return "; ".join(out)


@check("4 numpy integer subdomain id")
def _():
    F1, F2 = f * v * dx(1), f * v * dx(np.int64(1))
    if not F1.equals(F2):
        return None
    out = []
    if repr(F1) != repr(F2):
        out.append("F1 == F2 but repr differs")
    if F1.signature() != F2.signature():
        out.append("F1 == F2 but signature differs")
    return "; ".join(out)


@check("5 metadata 2 vs 2.0")
def _():
    F1, F2 = f * v * dx(metadata={"quadrature_degree": 2}), f * v * dx(metadata={"quadrature_degree": 2.0})
    if not F1.equals(F2):
        return None
    out = []
    if repr(F1) != repr(F2):
        out.append("F1 == F2 but repr differs")
    if F1.signature() != F2.signature():
        out.append("F1 == F2 but signature differs")
    return "; ".join(out)


@check("6 numpy integer count")
def _():
    c1, c2 = Constant(mesh, (), 3), Constant(mesh, (), np.int64(3))
    if not (c1 == c2):
        return None
    out = []
    if repr(c1) != repr(c2):
        out.append("c1 == c2 but repr differs (%r...)" % repr(c2)[-16:])
    if hash(c1) != hash(c2):
        out.append("c1 == c2 but hash differs")
    if not ((c1 + 1) == (c2 + 1)):
        out.append("c1 == c2 but c1 + 1 != c2 + 1")
    return "; ".join(out)


@check("7 ZeroBaseForm eval(repr)")
def _():
    z = ZeroBaseForm((Argument(V, 0), Argument(V, 1)))
    return None if eval(repr(z), dict(NS)) == z else "not equal"


@check("8 FormSum weights 2 vs 2.0")
def _():
    c, d = Cofunction(V.dual(), 7), Cofunction(V.dual(), 8)
    S1, S2 = FormSum((c, 2), (d, 3)), FormSum((c, 2.0), (d, 3))
    if not S1.equals(S2):
        return None
    return None if repr(S1) == repr(S2) else "S1 == S2 (and same hash: %s) but repr differs" % (hash(S1) == hash(S2))


@check("9 Coargument.arguments() remembers the first outer_form it was asked with")
def _():
    c1, c2 = Coargument(V.dual(), 0), Coargument(V.dual(), 0)
    assert c1.equals(c2)
    c1.arguments(outer_form=True)  # history on c1 only
    a1, a2 = c1.arguments(), c2.arguments()
    return None if a1 == a2 else "c1 == c2 but c1.arguments() has %d entries, c2.arguments() %d" % (len(a1), len(a2))


@check("10 FixedIndex(True) poisons the fly-weight for 1")
def _():
    if 1 in FixedIndex._cache:
        return None  # too late in this process, cannot show it
    FixedIndex(True)
    r = repr(FixedIndex(1))
    return None if r == "FixedIndex(1)" else "repr(FixedIndex(1)) is %r because FixedIndex(True) was created first" % r


if problems:
    print("C13 VIOLATED (unmodified tree):")
    for p in problems:
        print("  -", p)
    sys.exit(1)
print("ok")
sys.exit(0)
