"""UNMODIFIED tree: the flyweight caches of IntValue, Zero and MultiIndex are keyed by
value only and are shared with every subclass, so for a late-registered type that
derives from one of these concrete types

  * LateType(value) silently returns an instance of the *base* type if the value
    was ever created before (by user code or by any UFL algorithm), and
  * BaseType(value) / as_ufl(value) / 8*f silently return an instance of the *late*
    type if LateType(value) happened to be created first, so that every algorithm
    dispatches built-in literals to the late type's handler.

Which handler an algorithm dispatches to therefore depends on what ran before the
type was registered.  exit 1 if the problem is present, 0 otherwise.
"""

import sys

sys.path.insert(0, "/tmp/seed_73")
sys.path.insert(0, "/tmp/seed_73/test")

import ufl  # noqa: E402
from ufl import as_ufl, triangle  # noqa: E402
from ufl.classes import (  # noqa: E402
    Coefficient,
    FixedIndex,
    FunctionSpace,
    IntValue,
    Mesh,
    MultiIndex,
    Zero,
)
from ufl.core.ufl_type import ufl_type  # noqa: E402
from ufl.corealg.map_dag import map_expr_dag  # noqa: E402
from ufl.corealg.multifunction import MultiFunction  # noqa: E402
from utils import LagrangeElement  # noqa: E402

print("ufl imported from", ufl.__file__)
mesh = Mesh(LagrangeElement(triangle, 1, (2,)))
V = FunctionSpace(mesh, LagrangeElement(triangle, 1))
f = Coefficient(V)

# Ordinary work before the downstream types exist: creates IntValue(7), Zero((2,))
# and MultiIndex((FixedIndex(1),)) somewhere inside UFL.
_ = 7 * f
_ = Zero((2,))
_ = MultiIndex((FixedIndex(1),))


@ufl_type(wraps_type=int, is_literal=True)
class TaggedInt(IntValue):
    """An integer literal of a downstream library."""

    __slots__ = ()


@ufl_type(is_literal=True)
class TaggedZero(Zero):
    """A zero of a downstream library."""

    __slots__ = ()


@ufl_type()
class TaggedMultiIndex(MultiIndex):
    """A multiindex of a downstream library."""

    __slots__ = ()


class Names(MultiFunction):
    """Report the handler every node is dispatched to."""

    def int_value(self, o):
        return "int_value"

    def tagged_int(self, o):
        return "tagged_int"

    def terminal(self, o):
        return "terminal"

    def expr(self, o, *ops):
        return "(" + " ".join(ops) + ")"


problems = []

# (a) value seen before the type was registered: the late constructor does not
#     even return an instance of the late type
for label, obj, cls in [
    ("TaggedInt(7)", TaggedInt(7), TaggedInt),
    ("TaggedZero((2,))", TaggedZero((2,)), TaggedZero),
    ("TaggedMultiIndex((FixedIndex(1),))", TaggedMultiIndex((FixedIndex(1),)), TaggedMultiIndex),
]:
    print(f"{label:38s} -> {type(obj).__name__}")
    if type(obj) is not cls:
        problems.append(f"{label} returned a {type(obj).__name__} (value was created earlier)")

# (b) value first created through the late type: built-in literals now *are* the
#     late type and are dispatched to its handler by every algorithm
t8 = TaggedInt(8)
print(f"{'TaggedInt(8)':38s} -> {type(t8).__name__}")
e7 = 7 * f
e8 = 8 * f  # plain python int, nothing downstream-specific in this expression
d7 = map_expr_dag(Names(), e7)
d8 = map_expr_dag(Names(), e8)
print("dispatch of 7*f:", d7)
print("dispatch of 8*f:", d8)
if type(as_ufl(8)) is not IntValue:
    problems.append(f"as_ufl(8) returned a {type(as_ufl(8)).__name__}")
if d7 != d8:
    problems.append(
        f"the literal in 8*f is dispatched to '{d8}' but the one in 7*f to '{d7}': "
        "depends on which of IntValue(v) / TaggedInt(v) was created first"
    )

if problems:
    print("C20 VIOLATED on this tree:")
    for p in problems:
        print("  -", p)
    sys.exit(1)
print("OK")
sys.exit(0)
