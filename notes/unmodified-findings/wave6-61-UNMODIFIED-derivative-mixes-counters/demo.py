"""UNMODIFIED tree: derivative(F, (u, N), ...) with a Coefficient u and a BaseFormOperator N
orders the pair by raw .count() although the two counts come from two independent global
counters.  The signature of the derivative form therefore depends on how many
base form operators / coefficients were created earlier in the process.

exit(1) if the signatures differ (they do on the unmodified tree).
"""

import os
import subprocess
import sys

ROOT = os.getcwd()

CHILD = r"""
import sys
sys.path.insert(0, {root!r}); sys.path.insert(0, {root!r} + "/test")
from ufl import (Coefficient, FunctionSpace, Mesh, TestFunction, TrialFunction, as_vector,
                 derivative, dx, triangle)
from ufl.core.external_operator import ExternalOperator
from utils import LagrangeElement
n_coefficients, n_operators = int(sys.argv[1]), int(sys.argv[2])
mesh = Mesh(LagrangeElement(triangle, 1, (2,)))
V = FunctionSpace(mesh, LagrangeElement(triangle, 1))
w = Coefficient(V)
# unrelated earlier work of the process: only shifts the two global counters
for _ in range(n_coefficients):
    Coefficient(V)
for _ in range(n_operators):
    ExternalOperator(w, function_space=V)
# the form under study, always created in the same order
u = Coefficient(V)
N = ExternalOperator(u, function_space=V)
v = TestFunction(V)
du = TrialFunction(V)
F = u * N * v * dx
J = derivative(F, (u, N), as_vector([du, du]))
print(u.count(), N.count(), J.signature())
"""

sigs = {}
for shift in [(0, 0), (5, 0), (0, 5), (3, 3), (0, 50)]:
    out = subprocess.run(
        [sys.executable, "-c", CHILD.format(root=ROOT), str(shift[0]), str(shift[1])],
        env=dict(os.environ, PYTHONPATH=ROOT), cwd=ROOT, capture_output=True, text=True, timeout=50,
    )
    if out.returncode != 0:
        print(out.stderr)
        sys.exit(2)
    cu, cn, sig = out.stdout.split()
    sigs[shift] = sig
    print(f"extra coefficients/operators {shift}: u.count()={cu} N.count()={cn} signature {sig[:16]}...")

if len(set(sigs.values())) > 1:
    print("C12 VIOLATED on the unmodified tree: signature depends on the values of the counters")
    sys.exit(1)
print("OK")
sys.exit(0)
