"""UNMODIFIED tree: the per-class handler-name tables of MultiFunction/Transformer are
revalidated only against the *length* of the type registry.  A handler that is
attached to an algorithm class for a new type *after* the table of that class
was built with the type already registered (i.e. the algorithm was used on the
new type before its handler was attached) is ignored until yet another type is
registered.

Each history runs in its own interpreter.  exit 0: same result; exit 1: differs.
"""

import subprocess
import sys

sys.path.insert(0, "/tmp/seed_63/test")
sys.path.insert(0, "/tmp/seed_63")


def scenario(mode):
    import warnings

    from utils import LagrangeElement

    from ufl import Coefficient, FunctionSpace, Mesh, triangle
    from ufl.algorithms.estimate_degrees import (
        SumDegreeEstimator,
        estimate_total_polynomial_degree,
    )
    from ufl.algorithms.transformer import ReuseTransformer
    from ufl.core.operator import Operator
    from ufl.core.ufl_type import ufl_type

    warnings.simplefilter("ignore")
    mesh = Mesh(LagrangeElement(triangle, 1, (2,)))
    V = FunctionSpace(mesh, LagrangeElement(triangle, 2))
    u = Coefficient(V)

    @ufl_type(num_ops=1, is_scalar=True)
    class Softplus(Operator):
        __slots__ = ()

        def __init__(self, f):
            Operator.__init__(self, (f,))

    if mode == "history":
        # algorithm classes are used on the new type before the downstream
        # library has attached its handlers (falls back to the generic ones)
        estimate_total_polynomial_degree(Softplus(u))
        ReuseTransformer().visit(Softplus(u))

    # downstream library registers the type with UFL's algorithms
    SumDegreeEstimator.softplus = lambda self, v, f: f + 2
    ReuseTransformer.softplus = lambda self, o, f: f  # strip the node

    print(
        estimate_total_polynomial_degree(Softplus(u)),
        type(ReuseTransformer().visit(Softplus(u))).__name__,
    )


def main():
    import ufl

    print("ufl from", ufl.__file__)
    out = {}
    for mode in ("fresh", "history"):
        p = subprocess.run([sys.executable, __file__, mode], capture_output=True, text=True, timeout=50)
        out[mode] = p.stdout.strip() if p.returncode == 0 else "<failed> " + p.stderr.strip()[-300:]
        print(f"{mode:8s}: degree, ReuseTransformer result type = {out[mode]}")
    if out["fresh"] != out["history"]:
        print("MISMATCH: handlers attached after the algorithm class was used on the type are ignored")
        sys.exit(1)
    sys.exit(0)


if __name__ == "__main__":
    if len(sys.argv) > 1:
        scenario(sys.argv[1])
    else:
        main()
