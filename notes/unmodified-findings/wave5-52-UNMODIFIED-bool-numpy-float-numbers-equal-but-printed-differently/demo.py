"""UNMODIFIED tree: numbers that are == as Python values but print differently
(bool / numpy integer / float) make equal UFL objects with different repr, hash, signature.

Exit 1 = violations found.
Run as:  cd <tree> && PYTHONPATH=<tree> python out/UNMODIFIED-bool-numpy-float-numbers-equal-but-printed-differently/demo.py
"""

import os
import sys

ROOT = os.getcwd()
sys.path.insert(0, os.path.join(ROOT, "test"))
sys.path.insert(0, ROOT)

import numpy as np

import ufl
from ufl import (
    H1,
    Argument,
    Coefficient,
    FunctionSpace,
    Mesh,
    SpatialCoordinate,
    TestFunction,
    dx,
    identity_pullback,
    sin,
    triangle,
)
from utils import FiniteElement

print("ufl from", ufl.__file__)
problems = []


def check(cond, msg):
    if not cond:
        problems.append(msg)
        print("VIOLATION:", msg)


coord = FiniteElement("Lagrange", triangle, 1, (2,), identity_pullback, H1)
mesh = Mesh(coord, ufl_id=0)
V = FunctionSpace(mesh, FiniteElement("Lagrange", triangle, 1, (), identity_pullback, H1))
u = Coefficient(V, count=0)
v = TestFunction(V)

# --- 1. subdomain ids: int / bool / numpy integer (all accepted: numbers.Integral)
F = {"1": u * v * dx(1), "True": u * v * dx(True), "np.int64(1)": u * v * dx(np.int64(1))}
for name in ("True", "np.int64(1)"):
    a, b = F["1"], F[name]
    if a.equals(b):
        check(repr(a) == repr(b), f"u*v*dx(1) == u*v*dx({name}) but the reprs differ")
        check(a.signature() == b.signature(), f"u*v*dx(1) == u*v*dx({name}) but signatures differ")

# --- 2. quadrature degree 2 / 2.0 (dict equality of the metadata), flags True / 1
a, b = u * v * dx(degree=2), u * v * dx(degree=2.0)
if a.equals(b):
    check(repr(a) == repr(b), "u*v*dx(degree=2) == u*v*dx(degree=2.0) but the reprs differ")
    check(a.signature() == b.signature(), "... and the signatures differ")
a, b = u * v * dx(metadata={"opt": True}), u * v * dx(metadata={"opt": 1})
if a.equals(b):
    check(repr(a) == repr(b), "metadata {'opt': True} vs {'opt': 1}: equal forms, reprs differ")

# --- 3. argument numbers
a1, a2, a3 = Argument(V, 1), Argument(V, True), Argument(V, np.int64(1))
for name, other in (("True", a2), ("np.int64(1)", a3)):
    if a1 == other:
        check(hash(a1) == hash(other), f"Argument(V, 1) == Argument(V, {name}) but hashes differ")
        check(repr(a1) == repr(other), f"Argument(V, 1) == Argument(V, {name}) but reprs differ")
        check(sin(a1) == sin(other), f"... and sin(.) of the two equal arguments is not equal")

# --- 4. mesh ids: equal hash here, so expr_equals shares operands and *comparing changes repr*
x1 = SpatialCoordinate(mesh)
x2 = SpatialCoordinate(Mesh(coord, ufl_id=np.int64(0)))
e1, e2 = sin(x1[0]), sin(x2[0])
before = repr(e1)
if e1 == e2:
    check(repr(e1) == before, "comparing e1 == e2 changed repr(e1)")

if problems:
    print(f"{len(problems)} violation(s)")
    sys.exit(1)
print("OK")
sys.exit(0)
