"""UNMODIFIED tree: integrals whose subdomain id / metadata differ only in numeric type are == but print and sign differently."""
import pickle
import sys

sys.path.insert(0, "/tmp/seed_44")
sys.path.insert(0, "/tmp/seed_44/test")

import ufl  # noqa: E402, F401
from ufl import *  # noqa: E402, F403
from ufl.classes import *  # noqa: E402, F403
from ufl.pullback import *  # noqa: E402, F403
from ufl.sobolevspace import *  # noqa: E402, F403
import utils  # noqa: E402, F401
from utils import FiniteElement  # noqa: E402

print("ufl from", ufl.__file__)
P1 = FiniteElement("Lagrange", triangle, 1, (), identity_pullback, H1)
P1v = FiniteElement("Lagrange", triangle, 1, (2,), identity_pullback, H1)
mesh = Mesh(P1v)
problems = []

import warnings  # noqa: E402

import numpy as np  # noqa: E402

warnings.simplefilter("ignore")
u = Coefficient(FunctionSpace(mesh, P1))
pairs = {
    "dx(1) vs dx(np.int64(1))": (u * dx(1), u * dx(np.int64(1))),
    "dx(1) vs dx(True)": (u * dx(1), u * dx(True)),
    "dx(degree=2) vs dx(degree=2.0)": (u * dx(degree=2), u * dx(degree=2.0)),
}
for name, (a, b) in pairs.items():
    if bool(a == b):
        if repr(a) != repr(b):
            problems.append(f"{name}: forms are == but repr differs")
        if hash(a) != hash(b):
            problems.append(f"{name}: forms are == but hash differs")
        if a.signature() != b.signature():
            problems.append(f"{name}: forms are == but signature() differs")

if problems:
    print("C13 VIOLATED (unmodified tree):")
    for p in problems:
        print("  -", p)
    sys.exit(1)
print("ok")
sys.exit(0)

