"""Unmodified tree: comparing a form with an equal form replaces the *objects* inside the input.

``expr_equals`` ends with ``self.ufl_operands = other.ufl_operands`` ("eagerly
DAGify").  Value-wise that is harmless, but the terminals of ``other`` need not
be the same *objects*: a form whose coefficients/meshes are data-carrying
subclasses (dolfinx Function, Mesh with cargo) loses them when it is compared
with its stripped twin.  Exits 1 when that happens, 0 otherwise.
"""

import sys

sys.path.insert(0, "/tmp/seed_54")
sys.path.insert(0, "/tmp/seed_54/test")

import ufl  # noqa: E402
from ufl import Coefficient, FunctionSpace, Mesh, TestFunction, dx, triangle  # noqa: E402
from ufl.algorithms import extract_coefficients, strip_terminal_data  # noqa: E402
from utils import LagrangeElement  # noqa: E402

print("ufl imported from", ufl.__file__)


class Cargo:
    """What a problem solving environment hangs on a ufl.Mesh."""

    def __init__(self, i):
        self._i = i

    def ufl_id(self):
        return self._i


class Function(Coefficient):
    """A coefficient that carries data, like dolfinx.fem.Function."""

    def __init__(self, *args, data):
        super().__init__(*args)
        self.data = data


mesh = Mesh(LagrangeElement(triangle, 1, (2,)), ufl_id=7, cargo=Cargo(7))
V = FunctionSpace(mesh, LagrangeElement(triangle, 1))
f = Function(V, data="the degrees of freedom")
v = TestFunction(V)
form = f * f * v * dx


def look(F):
    (c,) = extract_coefficients(F)
    return (type(c).__name__, getattr(c, "data", None), c.ufl_domain().ufl_cargo() is not None)


before = (repr(form), hash(form), form.signature(), look(form))
stripped, mapping = strip_terminal_data(form)

# the "algorithm": an equality test of the input with its (equal) stripped twin
assert form.equals(stripped)

after = (repr(form), hash(form), form.signature(), look(form))
print("value-level observables unchanged:", before[:3] == after[:3])
if before[3] != after[3]:
    print("but the coefficient object inside the input form was replaced:")
    print("   before: (type, data, mesh has cargo) =", before[3])
    print("   after : (type, data, mesh has cargo) =", after[3])
    print("   cached form.coefficients()[0] is still the user's object:",
          form.coefficients()[0] is f, "-- the integrand no longer contains it:",
          any(c is f for c in extract_coefficients(form)))
    sys.exit(1)
print("OK")
sys.exit(0)
