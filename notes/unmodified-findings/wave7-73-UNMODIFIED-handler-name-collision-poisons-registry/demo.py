"""UNMODIFIED tree: ufl_type() appends the class to the global registry FIRST and only at
the very end asserts `num_typecodes == len(set of handler names)`.  If a late type has
the same class name as an already registered type (re-running a notebook cell, a module
imported twice under two names, two libraries both defining `MyOp`, or a downstream
`class Coefficient(ufl.Coefficient)`), that assertion fails -- and because the set of
names is now permanently one short of the number of typecodes, EVERY later registration
of ANY type in this process fails as well, although each of those classes has already
been added to Expr._ufl_all_classes_ and is dispatched by every algorithm.

exit 1 if an unrelated, perfectly valid type can no longer be registered after one
name collision; 0 otherwise.
"""

import sys

sys.path.insert(0, "/tmp/seed_73")
sys.path.insert(0, "/tmp/seed_73/test")

import ufl  # noqa: E402
from ufl.classes import Expr, Operator  # noqa: E402
from ufl.core.ufl_type import ufl_type  # noqa: E402

print("ufl imported from", ufl.__file__)


def define(name):
    def __init__(self, a):
        Operator.__init__(self, (a,))

    cls = type(name, (Operator,), {"__slots__": (), "__init__": __init__})
    return ufl_type(num_ops=1, inherit_shape_from_operand=0, inherit_indices_from_operand=0)(cls)


problems = []
define("MyOp")
print("registered MyOp; registry size", len(Expr._ufl_all_classes_))
try:
    define("MyOp")  # e.g. the notebook cell is executed again
    print("MyOp re-defined without error")
except AssertionError:
    print("re-defining MyOp raised AssertionError; registry size now",
          len(Expr._ufl_all_classes_), "(the rejected class was added anyway)")

for name in ("Unrelated1", "Unrelated2"):
    try:
        define(name)
        print(f"registered {name}")
    except AssertionError:
        problems.append(f"{name}: a valid, uniquely named type is rejected with AssertionError "
                        "because of the earlier collision")

# Variant: the SAME class object is passed to ufl_type twice (a registration helper that
# is called again, a decorator stacked by mistake).  The second call fails the same
# assertion, but it has already moved the class to a new typecode and left its first slot
# in the registry pointing to a class whose typecode is now different: that slot stays
# empty in every dispatch table, and from then on NO MultiFunction can be built at all.
from ufl.corealg.multifunction import MultiFunction  # noqa: E402


class Anything(MultiFunction):
    def expr(self, o, *ops):
        return "expr"


cls = type("Again", (Operator,), {"__slots__": ()})
cls.__init__ = lambda self, a: Operator.__init__(self, (a,))
decorate = ufl_type(num_ops=1, inherit_shape_from_operand=0, inherit_indices_from_operand=0)
for _ in range(2):
    try:
        decorate(cls)
    except AssertionError:
        pass
try:
    Anything()
    print("MultiFunction objects can still be created")
except TypeError as e:
    problems.append(f"after decorating one class twice no MultiFunction can be built: TypeError: {e}")

sizes = (Expr._ufl_num_typecodes_, len(Expr._ufl_all_classes_), len(Expr._ufl_all_handler_names_))
print("typecodes / classes / handler names:", sizes)
if problems:
    print("DEFECT on this tree:")
    for p in problems:
        print("  -", p)
    sys.exit(1)
print("OK")
sys.exit(0)
