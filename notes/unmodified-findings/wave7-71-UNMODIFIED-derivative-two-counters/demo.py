"""Unmodified tree: derivative(F, (u, N)) with a Coefficient u and an ExternalOperator N orders the
pair by count() - but the two counts come from two independent global counters.  Shifting one of the
counters (same creation order!) changes the signature."""
import os, subprocess, sys
def _find_root():
    """The ufl tree this demo is run in: cwd, then PYTHONPATH, then the tree the file lives in."""
    here = os.path.dirname(os.path.dirname(os.path.dirname(os.path.abspath(__file__))))
    candidates = [os.getcwd(), *os.environ.get("PYTHONPATH", "").split(os.pathsep), here, "/tmp/seed_71"]
    for cand in candidates:
        if cand and os.path.isdir(os.path.join(cand, "ufl")) and os.path.isdir(os.path.join(cand, "test")):
            return os.path.realpath(cand)
    raise SystemExit("cannot locate the ufl source tree (run with cwd = the tree)")


ROOT = _find_root()
CHILD = r"""
import sys
sys.path.insert(0, {root!r}); sys.path.insert(0, {root!r} + "/test")
from ufl import Coefficient, FunctionSpace, Mesh, TestFunction, TrialFunction, derivative, dx, triangle
from ufl.core.external_operator import ExternalOperator
from utils import LagrangeElement
shift = sys.argv[1]
mesh = Mesh(LagrangeElement(triangle, 1, (2,)))
V = FunctionSpace(mesh, LagrangeElement(triangle, 1))
w = Coefficient(V)
# prior history that only shifts one global counter
if shift == "coefficients":
    for _ in range(5): Coefficient(V)
elif shift == "operators":
    for _ in range(5): ExternalOperator(w, function_space=V)
u = Coefficient(V); g = Coefficient(V)
N = ExternalOperator(g, function_space=V)
v = TestFunction(V); du = TrialFunction(V)
F = u * N * v * dx
J = derivative(F, (u, N), (du, du))
print("SIG", u.count(), N.count(), F.signature(), J.signature())
"""
res = {}
for shift in ("none", "coefficients", "operators"):
    env = dict(os.environ, PYTHONPATH=ROOT, PYTHONHASHSEED="0")
    out = subprocess.run([sys.executable, "-c", CHILD.format(root=ROOT), shift], cwd=ROOT, env=env,
                         capture_output=True, text=True, timeout=50)
    assert out.returncode == 0, out.stderr
    _, cu, cn, sf, sj = out.stdout.split()
    res[shift] = (sf, sj)
    print(f"shift {shift:12s}: count(u)={cu:>2} count(N)={cn:>2}  F {sf[:12]}  derivative(F,(u,N)) {sj[:12]}")
bad = False
if len({r[0] for r in res.values()}) != 1:
    print("FAIL: signature of F depends on the counters"); bad = True
if len({r[1] for r in res.values()}) != 1:
    print("FAIL: signature of derivative(F, (u, N), ...) depends on the relative position of the "
          "Coefficient counter and the BaseFormOperator counter"); bad = True
sys.exit(1 if bad else 0)
