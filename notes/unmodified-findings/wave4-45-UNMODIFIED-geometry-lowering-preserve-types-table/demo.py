"""UNMODIFIED tree: GeometryLoweringApplier keeps a private typecode-indexed table.

``GeometryLoweringApplier.__init__`` sizes ``self._preserve_types`` with
``Expr._ufl_num_typecodes_`` at construction time.  ``MultiFunction`` refreshes
``_handlers`` when a type is registered later, but this extra table is never
refreshed, so an applier object that outlives a registration raises IndexError
for the new type, while an applier created afterwards handles it.

exit(1) when the violation is observed (it is, on the unmodified tree).
"""

import os
import sys

sys.path.insert(0, os.getcwd())
sys.path.insert(0, os.path.join(os.getcwd(), "test"))

import ufl
from ufl import Mesh, triangle
from ufl.algorithms.apply_geometry_lowering import GeometryLoweringApplier
from ufl.classes import Jacobian
from ufl.core.ufl_type import ufl_type
from ufl.corealg.map_dag import map_expr_dag
from utils import LagrangeElement

print("ufl imported from", ufl.__file__)
mesh = Mesh(LagrangeElement(triangle, 1, (2,)))

old_applier = GeometryLoweringApplier()
assert map_expr_dag(old_applier, Jacobian(mesh)) == map_expr_dag(
    GeometryLoweringApplier(), Jacobian(mesh)
)


@ufl_type()
class LateJacobian(Jacobian):
    """A geometric quantity registered after ``old_applier`` was created."""

    __slots__ = ()


J = LateJacobian(mesh)
expected = map_expr_dag(GeometryLoweringApplier(), J)
print("applier created after the registration:", expected)
try:
    got = map_expr_dag(old_applier, J)
except Exception as e:  # noqa: BLE001
    print(f"C20 VIOLATED: applier created before the registration raised {type(e).__name__}: {e}")
    sys.exit(1)
if got != expected:
    print(f"C20 VIOLATED: old applier gives {got}, new applier gives {expected}")
    sys.exit(1)
print("ok")
sys.exit(0)
