"""UNMODIFIED tree (borderline for C20): ``Zero._cache`` / ``IntValue._cache`` intern
objects by shape / value only, not by class.  With a registered subclass of
``Zero`` the *type* of the object a constructor returns - and therefore the
handler every algorithm dispatches it to - depends on which of the two classes
was instantiated first for that shape in this process.

Each history runs in its own interpreter.  exit 0: same dispatch; exit 1: differs.
"""

import subprocess
import sys

sys.path.insert(0, "/tmp/seed_63/test")
sys.path.insert(0, "/tmp/seed_63")


def scenario(mode):
    from utils import LagrangeElement

    from ufl import Coefficient, FunctionSpace, Mesh, diff, sin, triangle, variable
    from ufl.algorithms.apply_derivatives import apply_derivatives
    from ufl.constantvalue import Zero
    from ufl.core.ufl_type import ufl_type
    from ufl.corealg.map_dag import map_expr_dag
    from ufl.corealg.multifunction import MultiFunction

    mesh = Mesh(LagrangeElement(triangle, 1, (2,)))
    V = FunctionSpace(mesh, LagrangeElement(triangle, 1, (2,)))
    u, w = variable(Coefficient(V)), Coefficient(V)
    # d(sin(w0) w)/du == 0 (shape (2, 2)): the AD rules build it as Zero((2, 2))
    expr = diff(sin(w[0]) * w, u)

    @ufl_type(is_literal=True)
    class StructuralZero(Zero):
        """A zero a downstream library wants to track separately."""

        __slots__ = ()

    class Which(MultiFunction):
        def zero(self, o):
            return "zero handler"

        def structural_zero(self, o):
            return "structural_zero handler"

        def expr(self, o, *ops):
            return ops

    if mode == "ufl-first":
        # an ordinary UFL algorithm runs first; it creates Zero((2, 2)) internally
        apply_derivatives(expr)
    mine = StructuralZero((2, 2))
    theirs = apply_derivatives(expr)
    print(
        "StructuralZero((2,2)) ->", map_expr_dag(Which(), mine),
        "| Zero produced by apply_derivatives ->", map_expr_dag(Which(), theirs),
    )


def main():
    import ufl

    print("ufl from", ufl.__file__)
    out = {}
    for mode in ("mine-first", "ufl-first"):
        p = subprocess.run([sys.executable, __file__, mode], capture_output=True, text=True, timeout=50)
        out[mode] = p.stdout.strip() if p.returncode == 0 else "<failed> " + p.stderr.strip()[-300:]
        print(f"{mode:10s}: {out[mode]}")
    if out["mine-first"] != out["ufl-first"]:
        print("MISMATCH: which handler an object is dispatched to depends on the history of the interning cache")
        sys.exit(1)
    sys.exit(0)


if __name__ == "__main__":
    if len(sys.argv) > 1:
        scenario(sys.argv[1])
    else:
        main()
