"""UNMODIFIED tree: handler lookup uses hasattr(instance, name), so data attributes count.

``Replacer`` keeps its substitution dict in ``self.mapping``.  A downstream type called
``Mapping`` has the handler name ``mapping``.  If a Replacer object exists when Mapping is
registered, the next use of that object rebuilds the dispatch table of the *class* with
``hasattr(self, "mapping") == True`` and fails with TypeError (a dict is not callable).
A Replacer created after the registration works (the table is built in
MultiFunction.__init__, before ``self.mapping`` is assigned) - and once such an object has
cached a good table, the old object works again: the outcome depends on the interleaving.
"""

import sys

sys.path.insert(0, "/tmp/seed_53")
sys.path.insert(0, "/tmp/seed_53/test")
import ufl
from ufl import Coefficient, FunctionSpace, Mesh, triangle
from ufl.algorithms.replace import Replacer
from ufl.core.operator import Operator
from ufl.core.ufl_type import ufl_type
from ufl.corealg.map_dag import map_expr_dag
from utils import LagrangeElement

assert ufl.__file__.startswith("/tmp/seed_53/")
mesh = Mesh(LagrangeElement(triangle, 1, (2,)))
V = FunctionSpace(mesh, LagrangeElement(triangle, 1))
f = Coefficient(V)
g = Coefficient(V)

old = Replacer({f: g})
print("before:", map_expr_dag(old, f + 1))


@ufl_type(num_ops=1, inherit_shape_from_operand=0, inherit_indices_from_operand=0)
class Mapping(Operator):
    """A downstream operator."""

    __slots__ = ()

    def __init__(self, a):
        Operator.__init__(self, (a,))


bad = False
try:
    print("old object after registration:", map_expr_dag(old, f + 1))
except TypeError as e:
    print("FAIL: Replacer object created before the registration:", str(e)[-60:])
    bad = True
print("new object after registration:", map_expr_dag(Replacer({f: g}), f + 1))
print("old object again            :", map_expr_dag(old, f + 1))
sys.exit(1 if bad else 0)
