"""Unmodified tree: literals nan / inf do not survive eval(repr(.)); nan not even pickle."""

import os
import pickle
import sys

sys.path.insert(0, os.getcwd())
sys.path.insert(0, os.path.join(os.getcwd(), "test"))

import ufl
import ufl.classes
from ufl import Coefficient, FunctionSpace, Mesh, as_ufl, triangle
from ufl.pullback import identity_pullback
from ufl.sobolevspace import H1
from utils import FiniteElement

print("ufl imported from", ufl.__file__)
mesh = Mesh(FiniteElement("Lagrange", triangle, 1, (2,), identity_pullback, H1))
f = Coefficient(FunctionSpace(mesh, FiniteElement("Lagrange", triangle, 1, (), identity_pullback, H1)))

failures = []
for name, value in [("nan", float("nan")), ("inf", float("inf")), ("1+infj", complex(1, float("inf")))]:
    x = as_ufl(value)
    back = pickle.loads(pickle.dumps(x))
    if not (back == x):
        failures.append(f"{name}: {x!r} != its pickle copy (hash equal: {hash(back) == hash(x)})")
    e = f * x
    if not (pickle.loads(pickle.dumps(e)) == e):
        failures.append(f"{name}: f*{name} != its pickle copy")
    try:
        if not (eval(repr(x), vars(ufl.classes)) == x):
            failures.append(f"{name}: eval(repr(.)) is not equal")
    except Exception as err:
        failures.append(f"{name}: repr {x!r} is not evaluable: {type(err).__name__}: {err}")

if failures:
    print("C13 VIOLATED on this tree:")
    for line in failures:
        print("  -", line)
    sys.exit(1)
print("ok")
sys.exit(0)
