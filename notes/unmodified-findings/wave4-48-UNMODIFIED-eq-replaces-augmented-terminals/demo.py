"""UNMODIFIED tree (borderline): == swaps the terminals of its left operand.

expr_equals() ends with ``self.ufl_operands = other.ufl_operands`` ("eagerly
DAGify").  Terminals are compared with their own ``__eq__``; for a Coefficient
that is "same count and equal function space", and ``isinstance`` - so a
user subclass carrying data (dolfinx Function / firedrake Function style, the
very objects strip_terminal_data exists for) is *equal* to its stripped plain
twin.  Comparing an expression with its stripped twin therefore replaces the
data-carrying coefficient inside the *input* expression by the stripped one.

Exit 1 if the coefficient objects of the input changed, 0 otherwise.
"""

import os
import sys

ROOT = os.getcwd()
sys.path.insert(0, os.path.join(ROOT, "test"))
sys.path.insert(0, ROOT)

from utils import LagrangeElement  # noqa: E402

import ufl  # noqa: E402
from ufl import Coefficient, FunctionSpace, Mesh, TestFunction, dx, triangle  # noqa: E402
from ufl.algorithms import extract_coefficients, strip_terminal_data  # noqa: E402

print("ufl imported from", ufl.__file__)


class Function(Coefficient):
    """A coefficient with a payload, as every problem solving environment has."""

    def __init__(self, V, data):
        super().__init__(V)
        self.data = data


mesh = Mesh(LagrangeElement(triangle, 1, (2,)))
V = FunctionSpace(mesh, LagrangeElement(triangle, 1))
f = Function(V, data="10 GB of dofs")
v = TestFunction(V)
e = f * v
F = e * dx

stripped, _ = strip_terminal_data(F)
twin = stripped.integrals()[0].integrand()

before = extract_coefficients(e)
assert before == [f] and before[0] is f
equal = e == twin  # True: same structure, equal terminals
after = extract_coefficients(e)

print("e == stripped twin:", equal)
print("coefficients before:", [(type(c).__name__, getattr(c, "data", None)) for c in before])
print("coefficients after: ", [(type(c).__name__, getattr(c, "data", None)) for c in after])
if after[0] is not f:
    print("C27 VIOLATED (identity/payload): == replaced the coefficient object inside its operand")
    sys.exit(1)
print("OK")
sys.exit(0)
