"""UNMODIFIED tree: two different Constants that share an (explicitly given) count are
numbered in set-iteration order, so Form.signature() depends on PYTHONHASHSEED.

exit(1) if the signature differs between hash seeds (it does on the unmodified tree).
"""

import os
import subprocess
import sys

ROOT = os.getcwd()

CHILD = r"""
import sys
sys.path.insert(0, {root!r}); sys.path.insert(0, {root!r} + "/test")
from ufl import Constant, Mesh, dx, triangle
from utils import LagrangeElement
mesh = Mesh(LagrangeElement(triangle, 1, (2,)))
# e.g. re-created from a checkpoint / eval(repr(.)) of two different programs: same count,
# different shape.  Constant.__eq__ tells them apart, nothing rejects the pair.
c1 = Constant(mesh, shape=(), count=5)
c2 = Constant(mesh, shape=(2,), count=5)
F = (c1 + c2[0] * c2[1]) * dx(mesh)
print(F.signature(), [F.constant_numbering()[c] for c in (c1, c2)])
"""

results = {}
for seed in range(8):
    env = dict(os.environ, PYTHONHASHSEED=str(seed), PYTHONPATH=ROOT)
    out = subprocess.run(
        [sys.executable, "-c", CHILD.format(root=ROOT)],
        env=env, cwd=ROOT, capture_output=True, text=True, timeout=50,
    )
    if out.returncode != 0:
        print(out.stderr)
        sys.exit(2)
    sig, numbering = out.stdout.strip().split(" ", 1)
    results[seed] = (sig, numbering)
    print(f"PYTHONHASHSEED={seed}: signature {sig[:16]}..., numbering of (c1, c2) = {numbering}")

if len({sig for sig, _ in results.values()}) > 1:
    print("C12 VIOLATED on the unmodified tree: signature depends on PYTHONHASHSEED")
    sys.exit(1)
print("OK: same signature for all hash seeds")
sys.exit(0)
