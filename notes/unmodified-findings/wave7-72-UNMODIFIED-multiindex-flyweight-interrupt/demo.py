"""Unmodified tree: MultiIndex.__new__ registers a fixed multiindex in the flyweight
cache BEFORE it is initialised.  An interrupt (Ctrl-C) between the two steps leaves
a half-built object in MultiIndex._cache that every later A[0, 1] gets back."""

import os
import sys

sys.path.insert(0, os.getcwd())
sys.path.insert(0, os.path.join(os.getcwd(), "test"))

import ufl
from ufl import Coefficient, FunctionSpace, Mesh, triangle
from ufl.core.multiindex import FixedIndex, MultiIndex
from ufl.pullback import identity_pullback
from ufl.sobolevspace import H1
from utils import FiniteElement

print("ufl imported from", ufl.__file__)

mesh = Mesh(FiniteElement("Lagrange", triangle, 1, (2,), identity_pullback, H1))
T = FunctionSpace(mesh, FiniteElement("Lagrange", triangle, 1, (2, 2), identity_pullback, H1))
A = Coefficient(T)

fired = []


def interrupt_once(frame, event, arg):
    """Deliver a KeyboardInterrupt when MultiIndex._init is entered (once)."""
    code = frame.f_code
    if (
        event == "call"
        and not fired
        and code.co_name == "_init"
        and code.co_filename.endswith("multiindex.py")
        and isinstance(frame.f_locals.get("self"), MultiIndex)
    ):
        fired.append(True)
        raise KeyboardInterrupt
    return None


sys.settrace(interrupt_once)
try:
    A[0, 1]  # the user hits Ctrl-C while this expression is being built
except KeyboardInterrupt:
    print("A[0, 1] interrupted")
finally:
    sys.settrace(None)

failures = []
try:
    e1, e2 = A[0, 1], A[0, 1]  # ... and carries on
    if not (e1 == e2):
        failures.append("A[0, 1] != A[0, 1]")
    hash(e1)
    r = repr(e1)
    if "MultiIndex((FixedIndex(0), FixedIndex(1)))" not in r:
        failures.append("unexpected repr " + r[-80:])
except Exception as e:
    failures.append(f"A[0, 1] is unusable for the rest of the process: {type(e).__name__}: {e}")

if failures:
    print("C13 VIOLATED on this tree:")
    for line in failures:
        print("  -", line)
    sys.exit(1)
print("ok")
sys.exit(0)
