"""Unmodified tree: numpy arrays in integral metadata (custom quadrature points/weights) enter the
signature through str(ndarray), which depends on numpy's global print options (process state) and
abbreviates long arrays with '...'."""
import os, subprocess, sys
def _find_root():
    """The ufl tree this demo is run in: cwd, then PYTHONPATH, then the tree the file lives in."""
    here = os.path.dirname(os.path.dirname(os.path.dirname(os.path.abspath(__file__))))
    candidates = [os.getcwd(), *os.environ.get("PYTHONPATH", "").split(os.pathsep), here, "/tmp/seed_71"]
    for cand in candidates:
        if cand and os.path.isdir(os.path.join(cand, "ufl")) and os.path.isdir(os.path.join(cand, "test")):
            return os.path.realpath(cand)
    raise SystemExit("cannot locate the ufl source tree (run with cwd = the tree)")


ROOT = _find_root()
CHILD = r"""
import sys
sys.path.insert(0, {root!r}); sys.path.insert(0, {root!r} + "/test")
import numpy as np
from ufl import Coefficient, FunctionSpace, Mesh, TestFunction, dx, triangle
from utils import LagrangeElement
if sys.argv[1] == "printoptions":
    np.set_printoptions(precision=3)        # e.g. set by the application for its own log output
mesh = Mesh(LagrangeElement(triangle, 1, (2,)))
V = FunctionSpace(mesh, LagrangeElement(triangle, 1))
f = Coefficient(V); v = TestFunction(V)
pts = np.array([[1 / 3, 1 / 3], [0.2, 0.6]]); wts = np.array([0.25, 0.25])
F = f * v * dx(metadata={{"quadrature_rule": "custom", "quadrature_points": pts, "quadrature_weights": wts}})
big1 = np.linspace(0.0, 1.0, 2000); big2 = big1.copy(); big2[1000] = 0.123
G1 = f * v * dx(metadata={{"quadrature_weights": big1}})
G2 = f * v * dx(metadata={{"quadrature_weights": big2}})
print("SIG", F.signature(), G1.signature() == G2.signature())
"""
res = {}
for mode in ("default", "printoptions"):
    env = dict(os.environ, PYTHONPATH=ROOT, PYTHONHASHSEED="0")
    out = subprocess.run([sys.executable, "-W", "error", "-c", CHILD.format(root=ROOT), mode], cwd=ROOT,
                         env=env, capture_output=True, text=True, timeout=50)
    assert out.returncode == 0, out.stderr
    _, sig, collide = out.stdout.split()
    res[mode] = sig
    print(f"{mode:13s}: signature {sig[:16]}   (two different 2000-entry weight arrays give the same signature: {collide})")
if len(set(res.values())) != 1:
    print("FAIL: signature depends on numpy.set_printoptions (no warning is issued)")
    sys.exit(1)
sys.exit(0)
