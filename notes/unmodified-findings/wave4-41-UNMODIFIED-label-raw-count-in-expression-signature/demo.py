"""Unmodified-tree finding: Label._ufl_signature_data_ silently falls back to the raw
global label count when the label is missing from the renumbering.  Form.signature()
always numbers the labels, but compute_expression_signature() relies on the caller's
renumbering (form compilers build it from coefficients, constants and domains only).
Exits 1 when the expression signature depends on the Label counter."""

import os
import subprocess
import sys

ROOT = os.getcwd()
sys.path.insert(0, ROOT)
sys.path.insert(0, os.path.join(ROOT, "test"))

from ufl import Coefficient, FunctionSpace, Mesh, SpatialCoordinate, diff, sin, triangle, variable  # noqa: E402
from ufl.algorithms import extract_coefficients  # noqa: E402
from ufl.algorithms.signature import compute_expression_signature  # noqa: E402
from utils import LagrangeElement  # noqa: E402


def run(shift):
    mesh = Mesh(LagrangeElement(triangle, 1, (2,)))
    V = FunctionSpace(mesh, LagrangeElement(triangle, 1))
    for _ in range(shift):
        variable(SpatialCoordinate(mesh)[0])  # unrelated earlier variables
    f = Coefficient(V)
    e = variable(f**2)
    expr = diff(sin(e), e) + e
    renumbering = {mesh: 0}
    renumbering.update({c: i for i, c in enumerate(extract_coefficients(expr))})
    return compute_expression_signature(expr, renumbering)[:16]


def main():
    if len(sys.argv) > 1:
        print(run(int(sys.argv[1])))
        return 0
    results = {}
    for shift in (0, 3):
        env = dict(os.environ, PYTHONPATH=ROOT)
        results[shift] = subprocess.run(
            [sys.executable, os.path.abspath(__file__), str(shift)],
            env=env, cwd=ROOT, capture_output=True, text=True, check=True, timeout=50,
        ).stdout.strip()
        print(f"{shift} earlier variables: {results[shift]}")
    if len(set(results.values())) > 1:
        print("FAIL: expression signature contains the raw Label count")
        return 1
    print("OK")
    return 0


if __name__ == "__main__":
    sys.exit(main())
