"""Unmodified tree: the signature embeds Expr._ufl_typecode_, a global registration counter.
For a UFL type defined outside of ufl (decorated with @ufl_type) the typecode depends on how many
other types were registered before it in this process."""
import os, subprocess, sys
def _find_root():
    """The ufl tree this demo is run in: cwd, then PYTHONPATH, then the tree the file lives in."""
    here = os.path.dirname(os.path.dirname(os.path.dirname(os.path.abspath(__file__))))
    candidates = [os.getcwd(), *os.environ.get("PYTHONPATH", "").split(os.pathsep), here, "/tmp/seed_71"]
    for cand in candidates:
        if cand and os.path.isdir(os.path.join(cand, "ufl")) and os.path.isdir(os.path.join(cand, "test")):
            return os.path.realpath(cand)
    raise SystemExit("cannot locate the ufl source tree (run with cwd = the tree)")


ROOT = _find_root()
CHILD = r"""
import sys
sys.path.insert(0, {root!r}); sys.path.insert(0, {root!r} + "/test")
from ufl import Coefficient, FunctionSpace, Mesh, TestFunction, dx, triangle
from ufl.core.ufl_type import ufl_type
from ufl.mathfunctions import MathFunction
from utils import LagrangeElement

if sys.argv[1] == "other-library-first":
    # another package registers an operator of its own before ours is defined
    @ufl_type(num_ops=1)
    class Swish(MathFunction):
        __slots__ = ()
        def __init__(self, a):
            MathFunction.__init__(self, "swish", a)

@ufl_type(num_ops=1)
class Softplus(MathFunction):
    __slots__ = ()
    def __init__(self, a):
        MathFunction.__init__(self, "softplus", a)

mesh = Mesh(LagrangeElement(triangle, 1, (2,)))
V = FunctionSpace(mesh, LagrangeElement(triangle, 1))
u = Coefficient(V); v = TestFunction(V)
F = Softplus(u) * v * dx
print("SIG", Softplus._ufl_typecode_, F.signature())
"""
res = {}
for mode in ("alone", "other-library-first"):
    env = dict(os.environ, PYTHONPATH=ROOT, PYTHONHASHSEED="0")
    out = subprocess.run([sys.executable, "-c", CHILD.format(root=ROOT), mode], cwd=ROOT, env=env,
                         capture_output=True, text=True, timeout=50)
    assert out.returncode == 0, out.stderr
    _, tc, sig = out.stdout.split()
    res[mode] = sig
    print(f"{mode:20s}: typecode(Softplus)={tc}  signature {sig[:16]}")
if len(set(res.values())) != 1:
    print("FAIL: signature of the same form depends on how many UFL types were registered before")
    sys.exit(1)
sys.exit(0)
