"""UNMODIFIED tree: Action.__new__ hands back an existing Action, which Python then re-initialises.

``Action(coargument, A)`` / ``Action(A, argument)`` simplify to ``A``.  When ``A``
is itself an ``Action``, ``type.__call__`` sees that ``__new__`` returned an
instance of the class and runs ``A.__init__(left, right)`` on it: ``A`` is
overwritten in place and becomes its own operand.

Exits 1 (printing what changed) when the input is mutated, 0 otherwise.
"""

import os
import sys

sys.path.insert(0, os.getcwd())
sys.path.insert(0, os.path.join(os.getcwd(), "test"))

import ufl
from ufl import Argument, Coargument, Coefficient, FunctionSpace, Matrix, Mesh, action, triangle
from ufl.classes import Action
from utils import LagrangeElement

print("ufl from", ufl.__file__)

mesh = Mesh(LagrangeElement(triangle, 1, (2,)))
V = FunctionSpace(mesh, LagrangeElement(triangle, 1))
f = Coefficient(V)
M = Matrix(V, V)

failures = []


GETTERS = {
    "repr": repr,
    "left": lambda A: A.left(),
    "right": lambda A: A.right(),
    "arguments": lambda A: A.arguments(),
    "coefficients": lambda A: A.coefficients(),
}


def get(A, key):
    try:
        return GETTERS[key](A)
    except Exception as e:  # e.g. RecursionError once A is its own operand
        return f"<raises {type(e).__name__}>"


def show(x):
    if isinstance(x, Action):
        return f"<Action object at {id(x):#x}>" + (" (the input itself!)" if x is CURRENT[0] else "")
    return repr(x)[:110]


CURRENT = [None]


def snapshot(A):
    CURRENT[0] = A
    return {key: get(A, key) for key in GETTERS}


def check(label, A, before):
    for key, old in before.items():
        new = get(A, key)
        same = (new is old) if key in ("left", "right") else (new == old)
        if not same:
            failures.append(
                f"{label}: {key} of the input Action changed\n"
                f"    before: {show(old)}\n    after:  {show(new)}"
            )


# 1. the identity on the left: Action(c, A) -> A
A = Action(M, f)  # M is assembled, so this stays a symbolic Action
assert type(A) is Action
before = snapshot(A)
B = Action(Coargument(V.dual(), 0), A)
assert B is A
check("Action(Coargument, A)", A, before)

# 2. the identity on the right, through the public operator
A = Action(M, f)
before = snapshot(A)
B = action(A, Argument(V, 0), derivatives_expanded=True)
assert B is A
check("action(A, Argument, derivatives_expanded=True)", A, before)
try:
    hash(A)
except RecursionError:
    failures.append("hash(A) now raises RecursionError: A is its own left operand")

if failures:
    print("C27 VIOLATED on the unmodified tree:")
    for msg in failures:
        print(" -", msg)
    sys.exit(1)
print("ok: inputs untouched")
sys.exit(0)
