"""UNMODIFIED tree: ufl2unicode keeps a module-level ``PrecedenceRules`` DAGTraverser
(``_precrules``) whose ``_visited_cache`` lives for the whole process.  If
ufl2unicode was used on an expression of a new type *before* the downstream
library registered the precedence rule of that type, the stale precedence of
every node seen so far is kept for ever: the output depends on whether the
algorithm was used before the type was registered with it.

Each history runs in its own interpreter.  exit 0: same output; exit 1: differs.
"""

import subprocess
import sys

sys.path.insert(0, "/tmp/seed_63/test")
sys.path.insert(0, "/tmp/seed_63")


def scenario(mode):
    import warnings

    from utils import LagrangeElement

    from ufl import Coefficient, FunctionSpace, Mesh, triangle
    from ufl.core.operator import Operator
    from ufl.core.ufl_type import ufl_type
    from ufl.formatting.ufl2unicode import (
        Expression2UnicodeHandler,
        PrecedenceRules,
        ufl2unicode,
    )

    mesh = Mesh(LagrangeElement(triangle, 1, (2,)))
    V = FunctionSpace(mesh, LagrangeElement(triangle, 1))
    u, w = Coefficient(V), Coefficient(V)

    @ufl_type(num_ops=1, is_scalar=True)
    class Softplus(Operator):
        __slots__ = ()

        def __init__(self, f):
            Operator.__init__(self, (f,))

        def __str__(self):
            return f"softplus({self.ufl_operands[0]})"

    if mode == "history":
        # the algorithm is used on the new type before the type is registered with it
        with warnings.catch_warnings():
            warnings.simplefilter("ignore")  # "ufl2unicode does not define a handler for Softplus"
            ufl2unicode(Softplus(u) * w)

    # downstream library registers its type with the two DAGTraversers of ufl2unicode
    @PrecedenceRules.process.register(Softplus)
    def _(self, o):
        return 10  # binds like a math function

    @Expression2UnicodeHandler.process.register(Softplus)
    def _(self, o):
        return "softplus(" + self(o.ufl_operands[0]) + ")"

    print(ufl2unicode(Softplus(u) * w))


def main():
    import ufl

    print("ufl from", ufl.__file__)
    out = {}
    for mode in ("fresh", "history"):
        p = subprocess.run([sys.executable, __file__, mode], capture_output=True, text=True, timeout=50)
        out[mode] = p.stdout.strip() if p.returncode == 0 else "<failed> " + p.stderr.strip()[-200:]
        print(f"{mode:8s}: {out[mode]}")
    if out["fresh"] != out["history"]:
        print("MISMATCH: result depends on whether ufl2unicode was used before the type was registered with it")
        sys.exit(1)
    sys.exit(0)


if __name__ == "__main__":
    if len(sys.argv) > 1:
        scenario(sys.argv[1])
    else:
        main()
