"""UNMODIFIED tree: FunctionSpace.__repr__ drops the label that == / signature use."""
import pickle
import sys

sys.path.insert(0, "/tmp/seed_44")
sys.path.insert(0, "/tmp/seed_44/test")

import ufl  # noqa: E402, F401
from ufl import *  # noqa: E402, F403
from ufl.classes import *  # noqa: E402, F403
from ufl.pullback import *  # noqa: E402, F403
from ufl.sobolevspace import *  # noqa: E402, F403
import utils  # noqa: E402, F401
from utils import FiniteElement  # noqa: E402

print("ufl from", ufl.__file__)
P1 = FiniteElement("Lagrange", triangle, 1, (), identity_pullback, H1)
P1v = FiniteElement("Lagrange", triangle, 1, (2,), identity_pullback, H1)
mesh = Mesh(P1v)
problems = []

V = FunctionSpace(mesh, P1)
Vl = FunctionSpace(mesh, P1, label="boundary")
if V == Vl:
    problems.append("spaces with different labels compare equal (demo precondition)")
if not (eval(repr(V)) == V):
    problems.append("eval(repr(V)) != V for the unlabelled space (demo bug?)")
if not (eval(repr(Vl)) == Vl):
    problems.append("eval(repr(Vl)) != Vl for FunctionSpace(mesh, P1, label='boundary')")
f = Coefficient(Vl)
if not (eval(repr(f)) == f):
    problems.append("eval(repr(f)) != f for a Coefficient on the labelled space")
if not (pickle.loads(pickle.dumps(f)) == f):
    problems.append("pickle round trip of f is not equal (demo bug?)")
v = TestFunction(Vl)
F = f * v * dx
if not eval(repr(F)).equals(F):
    problems.append("eval(repr(F)) != F for a form with arguments/coefficients on the labelled space")
elif eval(repr(F)).signature() != F.signature():
    problems.append("eval(repr(F)) has a different signature")

if problems:
    print("C13 VIOLATED (unmodified tree):")
    for p in problems:
        print("  -", p)
    sys.exit(1)
print("ok")
sys.exit(0)

