"""UNMODIFIED tree: derivative() w.r.t. a tuple (Coefficient, BaseFormOperator) orders the
tuple by ``.count()`` although the two objects are counted by two different global counters.

Each child builds, in the same order,  u, m = Coefficient(V), Coefficient(V);
N = ExternalOperator(m, function_space=V);  F = u*N*v*dx;  J = derivative(F, (u, N), (du, dN))
after a prior history of ``n_coef`` unrelated coefficients and ``n_op`` unrelated
external operators.  exit 1 if ``J.signature()`` depends on the history.
"""

import os
import subprocess
import sys

ROOT = os.path.dirname(os.path.dirname(os.path.dirname(os.path.abspath(__file__))))

CHILD = r'''
import sys
sys.path.insert(0, %(root)r)
sys.path.insert(0, %(root)r + "/test")
import ufl
assert ufl.__file__.startswith(%(root)r), ufl.__file__
from utils import LagrangeElement
from ufl import (Coefficient, FunctionSpace, Measure, Mesh, TestFunction, TrialFunction,
                 derivative, triangle)
from ufl.core.external_operator import ExternalOperator

n_coef, n_op = int(sys.argv[1]), int(sys.argv[2])
mesh = Mesh(LagrangeElement(triangle, 1, (2,)))
V = FunctionSpace(mesh, LagrangeElement(triangle, 1))
z = Coefficient(V)
for _ in range(n_coef):
    Coefficient(V)
for _ in range(n_op):
    ExternalOperator(z, function_space=V)

u = Coefficient(V)
m = Coefficient(V)
N = ExternalOperator(m, function_space=V)
v = TestFunction(V)
F = u * N * v * Measure("dx", mesh)
J = derivative(F, (u, N), (TrialFunction(V), TrialFunction(V)))
(integral,) = J.integrals()
order = "".join("u" if w is u else "N" for w in integral.integrand().ufl_operands[1].ufl_operands)
print(J.signature(), "count(u)=%%d" %% u.count(), "count(N)=%%d" %% N.count(), "order=" + order)
'''


def run(n_coef, n_op):
    env = dict(os.environ, PYTHONHASHSEED="0", PYTHONPATH=ROOT)
    r = subprocess.run(
        [sys.executable, "-c", CHILD % {"root": ROOT}, str(n_coef), str(n_op)],
        cwd=ROOT, env=env, capture_output=True, text=True, timeout=50,
    )
    if r.returncode != 0:
        print(r.stdout, r.stderr)
        raise SystemExit("child failed")
    return r.stdout.split()


def main():
    histories = [(0, 0), (5, 0), (0, 5), (3, 3)]
    res = {h: run(*h) for h in histories}
    ref = res[histories[0]]
    bad = 0
    for h, r in res.items():
        ok = r[0] == ref[0]
        bad += not ok
        print(f"{h[0]} coefficients, {h[1]} operators before:", r[0][:16], *r[1:], "OK" if ok else "DIFFERS")
    if bad:
        print("FAIL: signature of derivative(F, (u, N), ...) depends on the values of the two global counters")
        sys.exit(1)
    print("OK")
    sys.exit(0)


if __name__ == "__main__":
    main()
