"""UNMODIFIED tree: integral metadata that holds numpy arrays (custom quadrature points and
weights) enters the signature through str(ndarray), which depends on the process-global
numpy print options - and is truncated with '...' for arrays with more than 1000 entries.

exit(1) if (a) the signature changes with np.set_printoptions or (b) two different
quadrature rules get the same signature.
"""

import os
import sys

ROOT = os.getcwd()
sys.path.insert(0, ROOT)
sys.path.insert(0, os.path.join(ROOT, "test"))

import numpy as np  # noqa: E402
from ufl import Coefficient, FunctionSpace, Mesh, TestFunction, dx, triangle  # noqa: E402
from utils import LagrangeElement  # noqa: E402


def build(points):
    mesh = Mesh(LagrangeElement(triangle, 1, (2,)))
    V = FunctionSpace(mesh, LagrangeElement(triangle, 1))
    u, v = Coefficient(V), TestFunction(V)
    md = {
        "quadrature_rule": "custom",
        "quadrature_points": points,
        "quadrature_weights": np.full(len(points), 0.5 / len(points)),
    }
    return u * v * dx(metadata=md)


problems = []
pts = np.array([[1 / 3, 1 / 3], [0.2, 0.6], [0.6, 0.2]])
a = build(pts).signature()
np.set_printoptions(precision=3)  # the application prefers short floats in its own output
b = build(pts).signature()
np.set_printoptions(precision=8)  # numpy default
if a != b:
    problems.append(
        f"same form, np.set_printoptions(precision=3) in between: {a[:16]}... != {b[:16]}..."
    )

big1 = np.linspace(0, 1, 2002).reshape(1001, 2)
big2 = big1.copy()
big2[500] = [0.123, 0.456]
if build(big1).signature() == build(big2).signature():
    problems.append("two different 1001-point quadrature rules have the same signature")

if problems:
    print("signature depends on / is blinded by numpy's global print options (unmodified tree):")
    for p in problems:
        print("  ", p)
    sys.exit(1)
print("OK")
sys.exit(0)
