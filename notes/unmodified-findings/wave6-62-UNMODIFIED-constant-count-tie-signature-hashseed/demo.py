"""UNMODIFIED tree: two different Constants sharing a count are numbered in set-iteration
(PYTHONHASHSEED) order; the cached signature travels in the pickle, so an unpickled form and an
equal form of the receiving process have different signatures. exit 1 = violated."""

import os
import pickle
import subprocess
import sys

HERE = os.path.dirname(os.path.abspath(__file__))
ROOT = os.path.abspath(os.path.join(HERE, "..", ".."))
sys.path.insert(0, ROOT)
sys.path.insert(0, os.path.join(ROOT, "test"))

import utils  # noqa: E402
from utils import FiniteElement  # noqa: E402

import ufl  # noqa: E402
import ufl.classes  # noqa: E402
from ufl import Constant, Mesh, dx, triangle  # noqa: E402
from ufl.pullback import IdentityPullback, identity_pullback  # noqa: E402
from ufl.sobolevspace import H1  # noqa: E402


def build():
    mesh = Mesh(FiniteElement("Lagrange", triangle, 1, (2,), identity_pullback, H1), ufl_id=0)
    c1 = Constant(mesh, (), count=3)
    c2 = Constant(mesh, (2,), count=3)  # a different constant (Constant.__eq__ compares the shape)
    assert c1 != c2
    return c1 * c2[0] * dx(mesh)


def namespace():
    ns = dict(vars(ufl.classes))
    ns.update(vars(ufl))
    ns.update(utils=utils, IdentityPullback=IdentityPullback, H1=H1)
    return ns


def send():
    F = build()
    F.signature()
    sys.stdout.write(pickle.dumps(F).hex())


def receive(hexdata):
    G = pickle.loads(bytes.fromhex(hexdata))
    H = eval(repr(G), namespace())
    ok = G.equals(H) and hash(G) == hash(H) and repr(G) == repr(H)
    if not ok:
        print("G and eval(repr(G)) differ in ==/hash/repr")
        sys.exit(1)
    if G.signature() != H.signature():
        num = lambda F: [(c.ufl_shape, n) for c, n in F.constant_numbering().items()]  # noqa: E731
        print(
            f"G == eval(repr(G)) but signatures differ: {G.signature()[:10]} != "
            f"{H.signature()[:10]}; constant numbering {num(G)} vs {num(H)}"
        )
        sys.exit(1)
    sys.exit(0)


def run(role, seed, stdin=None):
    env = dict(os.environ, PYTHONHASHSEED=str(seed), PYTHONPATH=ROOT)
    return subprocess.run(
        [sys.executable, os.path.abspath(__file__), role],
        env=env, cwd=ROOT, input=stdin, capture_output=True, text=True, timeout=50,
    )


def main():
    print("ufl from", ufl.__file__)
    bad = 0
    for a in (0, 1):
        s = run("send", a)
        if s.returncode:
            print(s.stderr)
            sys.exit(2)
        for b in (0, 1, 2, 3, 4, 5):
            r = run("receive", b, stdin=s.stdout)
            if r.returncode not in (0, 1):
                print(r.stderr)
                sys.exit(2)
            if r.returncode:
                bad += 1
                print(f"sender seed {a} -> receiver seed {b}: {r.stdout.strip()}")
    if bad:
        print(f"C13 VIOLATED on the unmodified tree in {bad} sender/receiver pairs")
        sys.exit(1)
    print("ok")
    sys.exit(0)


if __name__ == "__main__":
    if len(sys.argv) > 1 and sys.argv[1] == "send":
        send()
    elif len(sys.argv) > 1 and sys.argv[1] == "receive":
        receive(sys.stdin.read())
    else:
        main()
