"""UNMODIFIED tree: a constructor call that fails with an exception leaves a
half-initialised object in the fly-weight cache of Zero / IntValue; the next,
perfectly valid, construction returns that broken object.

exit 1 = violated (this is what happens on the unmodified tree).
"""
import os
import sys

ROOT = os.getcwd()
sys.path.insert(0, ROOT)

import ufl  # noqa: E402
from ufl.classes import IntValue, Zero  # noqa: E402

print("ufl from", ufl.__file__)
problems = []

# --- Zero: the cache entry is stored before the shape is validated --------
SH = (7,)  # a shape nobody has used yet in this process
assert SH not in Zero._cache
try:
    Zero((7.0,))  # invalid: float in shape -> ValueError("Expecting tuple of int.")
    problems.append("Zero((7.0,)) unexpectedly accepted")
except ValueError:
    pass
try:
    z = Zero(SH)  # valid; (7,) == (7.0,) and hash equal -> cache hit
    r = repr(z)
    if r != "Zero((7,), (), ())":
        problems.append("after the failed call, repr(Zero((7,))) is %r" % r)
    if not (eval(r) == z):
        problems.append("eval(repr(Zero((7,)))) != Zero((7,))")
except Exception as e:  # noqa: BLE001
    problems.append("after a failed Zero((7.0,)), the valid Zero((7,)) is broken: %s: %s" % (type(e).__name__, e))

# --- IntValue: same pattern, the entry is stored before int(value) ---------
K = 57
assert K not in IntValue._cache
try:
    IntValue(K + 0j)  # invalid: int(complex) -> TypeError, but cache[57+0j] is already set
    problems.append("IntValue(57+0j) unexpectedly accepted")
except TypeError:
    pass
try:
    a = IntValue(K)  # valid; 57 == 57+0j and hash equal -> cache hit
    if repr(a) != "IntValue(57)" or not (a == IntValue(K)) or a.value() != K:
        problems.append("IntValue(57) is wrong after the failed call: %r" % a)
except Exception as e:  # noqa: BLE001
    problems.append("after a failed IntValue(57+0j), the valid IntValue(57) is broken: %s: %s" % (type(e).__name__, e))

if problems:
    print("C13 VIOLATED (unmodified tree):")
    for p in problems:
        print("  -", p)
    sys.exit(1)
print("ok")
sys.exit(0)
