"""UNMODIFIED tree: once two types with the same class name have been registered
(second registration -> AssertionError), *no* further type can be registered in
the process, so no later type can ever be dispatched.

Typical histories: a notebook cell that defines a type is executed twice; a
downstream module whose import failed half-way is imported again; two libraries
that both define e.g. ``class Penalty(Operator)``.

exit 0: an unrelated type can still be registered and dispatched afterwards;
exit 1: it cannot.
"""

import sys

sys.path.insert(0, "/tmp/seed_63/test")
sys.path.insert(0, "/tmp/seed_63")

from utils import LagrangeElement

import ufl
from ufl import Coefficient, FunctionSpace, Mesh, triangle
from ufl.algorithms.estimate_degrees import estimate_total_polynomial_degree
from ufl.core.expr import Expr
from ufl.core.operator import Operator
from ufl.core.ufl_type import ufl_type

print("ufl from", ufl.__file__)
mesh = Mesh(LagrangeElement(triangle, 1, (2,)))
V = FunctionSpace(mesh, LagrangeElement(triangle, 2))
u = Coefficient(V)


def define(name):
    """What executing ``@ufl_type(...) class <name>(Operator): ...`` does."""

    def __init__(self, f):
        Operator.__init__(self, (f,))

    cls = type(name, (Operator,), {"__slots__": (), "__init__": __init__})
    return ufl_type(num_ops=1, is_scalar=True)(cls)


Penalty = define("Penalty")  # first definition: fine
try:
    define("Penalty")  # the cell is run again / second library with the same class name
    print("second registration of a class called Penalty: accepted")
except AssertionError:
    print("second registration of a class called Penalty: AssertionError (check_type_traits_consistency)")

print(
    "registry now: num_typecodes =", Expr._ufl_num_typecodes_,
    " classes =", len(Expr._ufl_all_classes_),
    " handler names =", len(Expr._ufl_all_handler_names_),
)

try:
    Other = define("CompletelyUnrelated")
except AssertionError:
    print("FAIL: a type with a fresh name can no longer be registered (AssertionError), and neither can any later one")
    sys.exit(1)

print("degree:", estimate_total_polynomial_degree(u * u))
sys.exit(0)
