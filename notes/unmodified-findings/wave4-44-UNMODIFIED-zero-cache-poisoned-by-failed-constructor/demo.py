"""UNMODIFIED tree: a failed Zero(...) call poisons the flyweight cache for the correct call."""
import pickle
import sys

sys.path.insert(0, "/tmp/seed_44")
sys.path.insert(0, "/tmp/seed_44/test")

import ufl  # noqa: E402, F401
from ufl import *  # noqa: E402, F403
from ufl.classes import *  # noqa: E402, F403
from ufl.pullback import *  # noqa: E402, F403
from ufl.sobolevspace import *  # noqa: E402, F403
import utils  # noqa: E402, F401
from utils import FiniteElement  # noqa: E402

print("ufl from", ufl.__file__)
P1 = FiniteElement("Lagrange", triangle, 1, (), identity_pullback, H1)
P1v = FiniteElement("Lagrange", triangle, 1, (2,), identity_pullback, H1)
mesh = Mesh(P1v)
problems = []

try:
    z = zero(7.0, 3)  # user error: a float in the shape
    problems.append("zero(7.0, 3) did not raise (demo precondition)")
except ValueError as e:
    print("expected failure:", e)
# ... the user fixes the call:
try:
    z = zero(7, 3)
    if z.ufl_shape != (7, 3) or not (eval(repr(z)) == z) or not (pickle.loads(pickle.dumps(z)) == z):
        problems.append("zero(7, 3) is not a proper Zero")
    w = Coefficient(FunctionSpace(mesh, P1)) * z
except Exception as e:  # noqa: BLE001
    problems.append(
        "after the failed zero(7.0, 3), the correct zero(7, 3) returns a half-initialised "
        f"object from Zero._cache: {type(e).__name__}: {e}"
    )

if problems:
    print("C13 VIOLATED (unmodified tree):")
    for p in problems:
        print("  -", p)
    sys.exit(1)
print("ok")
sys.exit(0)

