"""UNMODIFIED tree: an innocent `==` makes an existing ListTensor unpicklable.

exit 1 = C13 violated (this is what happens on the unmodified tree).
"""
import os
import pickle
import sys

ROOT = os.getcwd()
sys.path.insert(0, ROOT)
sys.path.insert(0, os.path.join(ROOT, "test"))

import ufl  # noqa: E402
from ufl import Coefficient, FunctionSpace, Mesh, grad, triangle  # noqa: E402
from ufl.classes import FixedIndex, Indexed, ListTensor, MultiIndex  # noqa: E402
from utils import LagrangeElement  # noqa: E402

print("ufl from", ufl.__file__)
mesh = Mesh(LagrangeElement(triangle, 1, (2,)), ufl_id=1)
V = FunctionSpace(mesh, LagrangeElement(triangle, 1))
f, g = Coefficient(V, 1), Coefficient(V, 2)

A1 = grad(f * g)  # two equal, separately built vectors
A2 = grad(f * g)
X = Indexed(A1, MultiIndex((FixedIndex(0),)))
Z = Indexed(A2, MultiIndex((FixedIndex(1),)))
LT = ListTensor(X, Z)  # [A1[0], A2[1]]: not simplified, A1 is not A2
assert isinstance(LT, ListTensor)

problems = []
# (a) round trips work now
ok_before = pickle.loads(pickle.dumps(LT)) == LT
if not ok_before:
    problems.append("pickle round trip fails even before the comparison")

# (b) compare X with an equal expression built on A2.  expr_equals "eagerly
# DAGifies": X.ufl_operands becomes (A2, ...), so LT is now [A2[0], A2[1]]
Y = Indexed(A2, MultiIndex((FixedIndex(0),)))
assert X == Y
r_after = repr(LT)

# (c) same object, same repr, same hash - but it cannot be pickled any more:
# unpickling calls ListTensor.__new__(*operands), whose identity based
# simplification [v[0], v[1]] -> v now fires and returns the Grad node, onto
# which pickle then tries to install the ListTensor state.
try:
    LT2 = pickle.loads(pickle.dumps(LT))
    if not (LT2 == LT):
        problems.append("after X == Y: pickle round trip of LT gives an unequal object: %s" % type(LT2).__name__)
except Exception as e:  # noqa: BLE001
    problems.append("after X == Y: pickle round trip of LT raises %s: %s" % (type(e).__name__, e))

# (d) neither does 'rebuild from own operands' give back an equal object
R = LT._ufl_expr_reconstruct_(*LT.ufl_operands)
if not (R == LT):
    problems.append(
        "after X == Y: LT._ufl_expr_reconstruct_(*LT.ufl_operands) is a %s, != LT (a %s)"
        % (type(R).__name__, type(LT).__name__)
    )

if problems:
    print("C13 VIOLATED (unmodified tree):")
    for p in problems:
        print("  -", p)
    sys.exit(1)
print("ok")
sys.exit(0)
