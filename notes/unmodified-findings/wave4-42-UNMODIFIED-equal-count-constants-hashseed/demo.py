"""UNMODIFIED tree: two hash-seed dependent signatures.

1. Two different ``Constant`` objects with the same (explicit) count are
   accepted in a form (for coefficients this is an error), and are numbered in
   the iteration order of a set.
2. A metadata value that is a set of strings is formatted with ``str``.

exit(0): property holds, exit(1): property violated.
"""

import os
import subprocess
import sys

ROOT = os.getcwd()
sys.path.insert(0, os.path.join(ROOT, "test"))
sys.path.insert(0, ROOT)

CHILD = r"""
import warnings
warnings.simplefilter("ignore")
import ufl
from ufl import Constant, FunctionSpace, Mesh, TestFunction, dx, triangle
from utils import LagrangeElement

mesh = Mesh(LagrangeElement(triangle, 1, (2,)))
V = FunctionSpace(mesh, LagrangeElement(triangle, 1))
v = TestFunction(V)
c1 = Constant(mesh, shape=(), count=0)
c2 = Constant(mesh, shape=(2,), count=0)
F = c1 * c2[0] * v * dx
G = v * dx(metadata={"flags": {"alpha", "beta", "gamma"}})
print(F.signature(), G.signature())
"""


def run(seed):
    env = dict(os.environ)
    env["PYTHONPATH"] = os.pathsep.join([ROOT, os.path.join(ROOT, "test")])
    env["PYTHONHASHSEED"] = str(seed)
    r = subprocess.run(
        [sys.executable, "-c", CHILD], capture_output=True, text=True, cwd=ROOT, env=env,
        timeout=50,
    )
    if r.returncode != 0:
        print(r.stdout, r.stderr)
        raise SystemExit(2)
    return r.stdout.split()


def main():
    import ufl

    print("ufl from", ufl.__file__)
    sigs = [run(seed) for seed in range(1, 13)]
    nF = len({s[0] for s in sigs})
    nG = len({s[1] for s in sigs})
    print(f"12 hash seeds: {nF} distinct signatures of the equal-count-constants form, "
          f"{nG} of the set-metadata form")
    if nF > 1 or nG > 1:
        print("VIOLATION: signature depends on PYTHONHASHSEED")
        sys.exit(1)
    print("OK")
    sys.exit(0)


if __name__ == "__main__":
    main()
