"""UNMODIFIED tree: registering a type whose metaclass *derives from* UFLType.

``MultiFunction._update_handlers`` / ``Transformer._update_handlers`` walk the MRO
of every registered class and, for MRO entries without ``_ufl_handler_name_``
(``object``, ``Counted``, ...), fall back to the ``ufl_type`` handler -- but only
``if type(classobject) is UFLType`` (exact type check), otherwise the
AttributeError is re-raised.  A new type with a metaclass that subclasses UFLType
(legal, and what e.g. firedrake's external operators do) therefore makes the
table build blow up for every algorithm class that has no handler on the type's
chain up to ``expr`` (LowerCompoundAlgebra, Replacer, every bare Transformer...),
for ALL expressions, not only those containing the new type.

exit(1) when the violation is observed (it is, on the unmodified tree).
"""

import os
import sys

sys.path.insert(0, os.getcwd())
sys.path.insert(0, os.path.join(os.getcwd(), "test"))

import ufl
from ufl import Coefficient, FunctionSpace, Mesh, replace, triangle
from ufl.algorithms.apply_algebra_lowering import apply_algebra_lowering
from ufl.algorithms.transformer import Transformer
from ufl.classes import Operator
from ufl.core.ufl_type import UFLType, ufl_type
from utils import LagrangeElement

print("ufl imported from", ufl.__file__)
mesh = Mesh(LagrangeElement(triangle, 1, (2,)))
V = FunctionSpace(mesh, LagrangeElement(triangle, 1))
u = Coefficient(V)
w = Coefficient(V)

before = (apply_algebra_lowering(u**2), replace(u**2, {u: w}))
Transformer()


class RegisteringMeta(UFLType):
    """A metaclass extending UFLType, e.g. to keep a downstream registry."""


@ufl_type(num_ops=1, inherit_shape_from_operand=0, inherit_indices_from_operand=0)
class LateOperator(Operator, metaclass=RegisteringMeta):
    """A perfectly valid unary operator."""

    __slots__ = ()

    def __init__(self, a):
        Operator.__init__(self, (a,))


failures = []
for label, thunk in [
    ("apply_algebra_lowering(u**2)", lambda: apply_algebra_lowering(u**2)),
    ("replace(u**2, {u: w})", lambda: replace(u**2, {u: w})),
    ("apply_algebra_lowering(LateOperator(u))", lambda: apply_algebra_lowering(LateOperator(u))),
    ("Transformer()", lambda: Transformer()),
]:
    try:
        print(label, "->", thunk())
    except Exception as e:  # noqa: BLE001
        failures.append(f"{label}: {type(e).__name__}: {e}")

if failures:
    print("C20 VIOLATED: after the registration these algorithms cannot dispatch ANY type:")
    for line in failures:
        print("  -", line)
    sys.exit(1)
print("ok")
sys.exit(0)
