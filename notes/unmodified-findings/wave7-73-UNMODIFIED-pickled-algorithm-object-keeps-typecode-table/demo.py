"""UNMODIFIED tree: a MultiFunction / Transformer *object* carries its typecode-indexed
handler table (self._handlers) in its pickle.  The table is only ever re-validated by
its LENGTH.  When the object is unpickled in another process in which the same two
downstream types were registered in the other order (e.g. the two downstream modules
were imported in a different order), the lengths agree, nothing is rebuilt, and every
LateA node is silently dispatched to the late_b handler and vice versa.

Parent: registers LateA then LateB, pickles Alg() and Tr().
Child : registers LateB then LateA, unpickles them and applies them.

exit 1 if the unpickled objects mis-dispatch, 0 otherwise.
"""

import os
import pickle
import subprocess
import sys
import tempfile

sys.path.insert(0, "/tmp/seed_73")
sys.path.insert(0, "/tmp/seed_73/test")

import ufl  # noqa: E402
from ufl import triangle  # noqa: E402
from ufl.algorithms.transformer import Transformer  # noqa: E402
from ufl.classes import Coefficient, FunctionSpace, Mesh, Operator  # noqa: E402
from ufl.core.ufl_type import ufl_type  # noqa: E402
from ufl.corealg.map_dag import map_expr_dag  # noqa: E402
from ufl.corealg.multifunction import MultiFunction  # noqa: E402
from utils import LagrangeElement  # noqa: E402


def register_a():
    @ufl_type(num_ops=1, inherit_shape_from_operand=0, inherit_indices_from_operand=0)
    class LateA(Operator):
        __slots__ = ()

        def __init__(self, a):
            Operator.__init__(self, (a,))

    return LateA


def register_b():
    @ufl_type(num_ops=1, inherit_shape_from_operand=0, inherit_indices_from_operand=0)
    class LateB(Operator):
        __slots__ = ()

        def __init__(self, a):
            Operator.__init__(self, (a,))

    return LateB


class Alg(MultiFunction):
    def late_a(self, o, a):
        return "late_a"

    def late_b(self, o, a):
        return "late_b"

    def expr(self, o, *ops):
        return "expr"

    def terminal(self, o):
        return "terminal"


class Tr(Transformer):
    def late_a(self, o, a):
        return "late_a"

    def late_b(self, o, a):
        return "late_b"

    def expr(self, o, *ops):
        return "expr"

    def terminal(self, o):
        return "terminal"


def objects():
    mesh = Mesh(LagrangeElement(triangle, 1, (2,)))
    V = FunctionSpace(mesh, LagrangeElement(triangle, 1))
    return Coefficient(V)


if len(sys.argv) == 1:
    print("ufl imported from", ufl.__file__)
    LateA = register_a()
    LateB = register_b()
    f = objects()
    alg, tr = Alg(), Tr()
    print("parent (A then B): ", alg(LateA(f), None), alg(LateB(f), None),
          tr.visit(LateA(f)), tr.visit(LateB(f)))
    with tempfile.TemporaryDirectory() as d:
        path = os.path.join(d, "algs.pkl")
        with open(path, "wb") as fh:
            pickle.dump((alg, tr), fh)
        r = subprocess.run([sys.executable, __file__, path], text=True, timeout=50,
                           cwd="/tmp/seed_73")
    sys.exit(r.returncode)
else:
    LateB = register_b()
    LateA = register_a()
    f = objects()
    with open(sys.argv[1], "rb") as fh:
        alg, tr = pickle.load(fh)
    got = (alg(LateA(f), None), alg(LateB(f), None), map_expr_dag(alg, LateA(f)),
           tr.visit(LateA(f)), tr.visit(LateB(f)))
    fresh = (Alg()(LateA(f), None), Alg()(LateB(f), None), map_expr_dag(Alg(), LateA(f)),
             Tr().visit(LateA(f)), Tr().visit(LateB(f)))
    print("child  (B then A), unpickled objects:", got)
    print("child  (B then A), fresh objects    :", fresh)
    if got != fresh:
        print("C20 VIOLATED on this tree: the unpickled algorithm objects dispatch LateA "
              "nodes to late_b and LateB nodes to late_a")
        sys.exit(1)
    print("OK")
    sys.exit(0)
