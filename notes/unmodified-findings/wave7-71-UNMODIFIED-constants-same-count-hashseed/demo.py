"""Unmodified tree: two Constants with the same (explicit) count but different shape get their
numbers in the signature from the iteration order of a set -> signature depends on PYTHONHASHSEED."""
import os, subprocess, sys
def _find_root():
    """The ufl tree this demo is run in: cwd, then PYTHONPATH, then the tree the file lives in."""
    here = os.path.dirname(os.path.dirname(os.path.dirname(os.path.abspath(__file__))))
    candidates = [os.getcwd(), *os.environ.get("PYTHONPATH", "").split(os.pathsep), here, "/tmp/seed_71"]
    for cand in candidates:
        if cand and os.path.isdir(os.path.join(cand, "ufl")) and os.path.isdir(os.path.join(cand, "test")):
            return os.path.realpath(cand)
    raise SystemExit("cannot locate the ufl source tree (run with cwd = the tree)")


ROOT = _find_root()
CHILD = r"""
import sys
sys.path.insert(0, {root!r}); sys.path.insert(0, {root!r} + "/test")
from ufl import Constant, VectorConstant, FunctionSpace, Mesh, TestFunction, dx, ds, triangle
from utils import LagrangeElement
mesh = Mesh(LagrangeElement(triangle, 1, (2,)))
V = FunctionSpace(mesh, LagrangeElement(triangle, 1))
c1 = Constant(mesh, count=5)            # e.g. eval(repr(c)) / objects restored from a file
c2 = VectorConstant(mesh, count=5)      # same count, other shape: a different object (c1 != c2)
v = TestFunction(V)
F = c1 * v * dx + c2[0] * v * dx(1) + c2[1] * c1 * v * ds
print("SIG", F.signature(), F.constant_numbering()[c1], F.constant_numbering()[c2])
"""
sigs = {}
for seed in range(8):
    env = dict(os.environ, PYTHONPATH=ROOT, PYTHONHASHSEED=str(seed))
    out = subprocess.run([sys.executable, "-c", CHILD.format(root=ROOT)], cwd=ROOT, env=env,
                         capture_output=True, text=True, timeout=50)
    assert out.returncode == 0, out.stderr
    _, sig, n1, n2 = out.stdout.split()
    sigs[seed] = sig
    print(f"PYTHONHASHSEED={seed}: signature {sig[:16]}  number(c1)={n1} number(c2)={n2}")
if len(set(sigs.values())) != 1:
    print("FAIL: signature depends on PYTHONHASHSEED")
    sys.exit(1)
sys.exit(0)
