"""UNMODIFIED tree: a rejected registration followed by the corrected one breaks all later ones.

1. A downstream developer registers ``Damped`` but forgets ``__slots__``: ``ufl_type``
   raises TypeError - after the class has already been entered into the registry.
2. The corrected ``Damped`` is registered: AssertionError (typecode count != number of
   distinct handler names), although the class is fine.
3. From now on EVERY registration (here ``Other``) raises AssertionError, so no type can be
   registered later any more in this process.
The same happens without step 1 when two libraries register types with the same class name.
"""

import sys

sys.path.insert(0, "/tmp/seed_53")
import ufl
from ufl.core.operator import Operator
from ufl.core.ufl_type import ufl_type

assert ufl.__file__.startswith("/tmp/seed_53/")

problems = []
try:

    @ufl_type(num_ops=1, inherit_shape_from_operand=0, inherit_indices_from_operand=0)
    class Damped(Operator):  # first attempt: __slots__ forgotten
        def __init__(self, a):
            Operator.__init__(self, (a,))

except TypeError as e:
    print("step 1 (expected):", e)

try:

    @ufl_type(num_ops=1, inherit_shape_from_operand=0, inherit_indices_from_operand=0)
    class Damped(Operator):  # noqa: F811  corrected class
        __slots__ = ()

        def __init__(self, a):
            Operator.__init__(self, (a,))

    print("step 2: Damped registered, typecode", Damped._ufl_typecode_)
except AssertionError as e:
    problems.append(f"step 2: registering the corrected Damped raised AssertionError({e})")

try:

    @ufl_type(num_ops=1, inherit_shape_from_operand=0, inherit_indices_from_operand=0)
    class Other(Operator):
        __slots__ = ()

        def __init__(self, a):
            Operator.__init__(self, (a,))

    print("step 3: Other registered, typecode", Other._ufl_typecode_)
except AssertionError as e:
    problems.append(f"step 3: registering an unrelated type Other raised AssertionError({e})")

if problems:
    print("FAIL:")
    for p in problems:
        print("  ", p)
    sys.exit(1)
sys.exit(0)
