"""UNMODIFIED tree: MultiIndex.__new__ puts a new fixed multi-index into the flyweight table
*before* it is initialised. An operation that is cut short between the two statements (Ctrl-C,
here injected deterministically with sys.settrace at that line) poisons the table: every later,
perfectly valid `expr[6]` silently gets a MultiIndex without `_indices`, whose ==, hash and
repr raise. exit 1 = violated."""

import os
import sys

HERE = os.path.dirname(os.path.abspath(__file__))
ROOT = os.path.abspath(os.path.join(HERE, "..", ".."))
sys.path.insert(0, ROOT)
sys.path.insert(0, os.path.join(ROOT, "test"))

from utils import FiniteElement  # noqa: E402

import ufl  # noqa: E402
from ufl import Coefficient, FunctionSpace, Mesh, triangle  # noqa: E402
from ufl.classes import MultiIndex  # noqa: E402
from ufl.pullback import identity_pullback  # noqa: E402
from ufl.sobolevspace import H1  # noqa: E402

print("ufl from", ufl.__file__)


def lagrange(degree, shape=()):
    return FiniteElement("Lagrange", triangle, degree, shape, identity_pullback, H1)


mesh = Mesh(lagrange(1, (2,)))
w = Coefficient(FunctionSpace(mesh, lagrange(1, (7,))))

# --- inject ONE KeyboardInterrupt when execution reaches `self._init(indices)` in
# --- MultiIndex.__new__ (i.e. right after `MultiIndex._cache[key] = self`)
new_code = MultiIndex.__new__.__code__
import inspect  # noqa: E402

src, first = inspect.getsourcelines(MultiIndex.__new__)
init_line = first + max(k for k, line in enumerate(src) if "self._init(indices)" in line)
fired = []


def tracer(frame, event, arg):
    if frame.f_code is not new_code:
        return None

    def local(frame, event, arg):
        if event == "line" and frame.f_lineno == init_line and not fired:
            fired.append(True)
            raise KeyboardInterrupt("simulated Ctrl-C")
        return local

    return local


sys.settrace(tracer)
try:
    w[6]  # first use of the fixed multi-index (6,), interrupted
except KeyboardInterrupt:
    print("first w[6] was interrupted (KeyboardInterrupt)")
finally:
    sys.settrace(None)
assert fired

# --- later, valid operations
problems = []
try:
    a = w[6]
    b = w[6]
    ok = (a == b) and hash(a) == hash(b) and repr(a) == repr(b)
    if not ok:
        problems.append("w[6] == w[6] / hash / repr inconsistent")
except Exception as ex:
    problems.append(f"w[6] after the interrupted attempt: {type(ex).__name__}: {ex}")
try:
    repr(MultiIndex((ufl.classes.FixedIndex(6),)))
except Exception as ex:
    problems.append(f"repr(MultiIndex((FixedIndex(6),))): {type(ex).__name__}: {ex}")

if problems:
    print("C13 VIOLATED on the unmodified tree:")
    for s in problems:
        print("  -", s)
    sys.exit(1)
print("ok")
sys.exit(0)
