"""Unmodified-tree finding: unpickling does not advance the global counters, so in the
receiving process freshly created Index / Coefficient objects can get the *same* count
as unpickled ones.  The signature of forms derived from an unpickled form then depends
on the counter values of the receiving process.  Exits 1 when this is observed."""

import os
import pickle
import subprocess
import sys
import tempfile

ROOT = os.getcwd()
sys.path.insert(0, ROOT)
sys.path.insert(0, os.path.join(ROOT, "test"))

from ufl import (  # noqa: E402
    Coefficient,
    FunctionSpace,
    Mesh,
    TestFunction,
    dx,
    grad,
    inner,
    triangle,
)
from ufl.algorithms import compute_form_data  # noqa: E402
from ufl.classes import Index  # noqa: E402
from utils import LagrangeElement  # noqa: E402


def spaces():
    mesh = Mesh(LagrangeElement(triangle, 1, (2,)), ufl_id=7)
    return mesh, FunctionSpace(mesh, LagrangeElement(triangle, 1, (2,)))


def preprocessed_signature(F):
    return compute_form_data(F, do_apply_function_pullbacks=True).preprocessed_form.signature()[:16]


def dump(path):
    mesh, V = spaces()
    u = Coefficient(V)
    v = TestFunction(V)
    Index()
    j = Index()
    F = u[j] * u[j] * inner(grad(u), grad(v)) * dx(mesh)
    with open(path, "wb") as f:
        pickle.dump(F, f)
    print(preprocessed_signature(F))


def load(path, shift):
    for _ in range(shift):
        Index()
    mesh, V = spaces()
    for _ in range(shift):
        Coefficient(V)
    with open(path, "rb") as f:
        F = pickle.load(f)
    # (a) lowering pipeline on the unpickled form
    a = preprocessed_signature(F)
    # (b) combine the unpickled form with a newly created coefficient
    g = Coefficient(V)
    G = F + inner(g, g) * inner(g, TestFunction(V)) * dx(mesh)
    print(a, f"{G.signature()[:16]}/{len(G.coefficients())}coefficients")


def main():
    if len(sys.argv) > 1:
        if sys.argv[1] == "dump":
            dump(sys.argv[2])
        else:
            load(sys.argv[2], int(sys.argv[3]))
        return 0

    env = dict(os.environ, PYTHONPATH=ROOT)

    def run(*args):
        return subprocess.run(
            [sys.executable, os.path.abspath(__file__), *args],
            env=env, cwd=ROOT, capture_output=True, text=True, check=True, timeout=50,
        ).stdout.split()

    with tempfile.TemporaryDirectory() as tmp:
        path = os.path.join(tmp, "form.pkl")
        (origin,) = run("dump", path)
        print(f"process that built the form           : preprocessed={origin}")
        results = {}
        for shift in (0, 1, 2, 30):
            results[shift] = run("load", path, str(shift))
            print(
                f"receiving process, counters shifted {shift:2d} : preprocessed={results[shift][0]}  "
                f"F+new={results[shift][1]}"
            )
    bad = {tuple(r) for r in results.values()}
    if len(bad) > 1 or any(r[0] != origin for r in results.values()):
        print("FAIL: results for an unpickled form depend on the counters of the receiving process")
        return 1
    print("OK")
    return 0


if __name__ == "__main__":
    sys.exit(main())
