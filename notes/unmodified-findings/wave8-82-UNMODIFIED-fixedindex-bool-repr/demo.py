"""UNMODIFIED tree: repr of f[1] depends on whether f[True] was built earlier in the process."""
import subprocess
import sys

CHILD = r'''
import sys
sys.path.insert(0, "/tmp/seed_82"); sys.path.insert(0, "/tmp/seed_82/test")
from utils import LagrangeElement
from ufl import Coefficient, FunctionSpace, Mesh, triangle
mesh = Mesh(LagrangeElement(triangle, 1, (2,)), ufl_id=0)
f = Coefficient(FunctionSpace(mesh, LagrangeElement(triangle, 1, (2,))), count=0)
if sys.argv[1] == "history":
    f[True]          # bool is an int: accepted, interned under the key True == 1
print(repr(f[1]))
'''
outs = [
    subprocess.run([sys.executable, "-c", CHILD, h], capture_output=True, text=True, timeout=50)
    for h in ("none", "history")
]
for o in outs:
    if o.returncode:
        print(o.stderr)
        sys.exit(2)
a, b = (o.stdout.strip() for o in outs)
if a != b:
    print("repr(f[1]) depends on the history of the process:")
    print("  fresh process      :", a[-45:])
    print("  after f[True] once :", b[-45:])
    sys.exit(1)
print("ok")
