"""Unmodified tree: numpy integers are legal subdomain ids (numbers.Integral) but
equal integrals then print differently and are not interchangeable in a Form."""

import os
import sys

sys.path.insert(0, os.getcwd())
sys.path.insert(0, os.path.join(os.getcwd(), "test"))

import numpy as np

import ufl
from ufl import Coefficient, FunctionSpace, Mesh, dx, triangle
from ufl.classes import Form
from ufl.pullback import identity_pullback
from ufl.sobolevspace import H1
from utils import FiniteElement

print("ufl imported from", ufl.__file__, "numpy", np.__version__)

mesh = Mesh(FiniteElement("Lagrange", triangle, 1, (2,), identity_pullback, H1))
V = FunctionSpace(mesh, FiniteElement("Lagrange", triangle, 1, (), identity_pullback, H1))
f, g = Coefficient(V), Coefficient(V)

markers = np.array([0, 1])  # subdomain ids usually come out of a marker array
(a,) = (f * dx(markers[0])).integrals()
(b,) = (f * dx(0)).integrals()
(c,) = (g * dx(1)).integrals()

failures = []
if a == b:
    if hash(a) != hash(b):
        failures.append("a == b but hash(a) != hash(b)")
    if repr(a) != repr(b):
        failures.append(
            "a == b but repr(a) != repr(b): the subdomain id prints as %r vs %r"
            % (a.subdomain_id(), b.subdomain_id())
        )
    Fa, Fb = Form([a, c]), Form([b, c])
    if not Fa.equals(Fb):
        failures.append(
            "a == b but Form([a, c]) != Form([b, c]); subdomain ids in stored order: %r vs %r"
            % (
                [i.subdomain_id() for i in Fa.integrals()],
                [i.subdomain_id() for i in Fb.integrals()],
            )
        )
    if Fa.signature() != Fb.signature():
        failures.append("a == b but Form([a, c]) and Form([b, c]) have different signatures")
else:
    failures.append("dx(np.int64(0)) and dx(0) integrals are not even equal")

if failures:
    print("C13 VIOLATED on this tree:")
    for line in failures:
        print("  -", line)
    sys.exit(1)
print("ok")
sys.exit(0)
