"""UNMODIFIED tree: ``w * fs`` with ``w == 1`` re-initialises the FormSum ``fs`` in place.

``BaseForm.__rmul__`` builds ``FormSum((fs, w))``; ``FormSum.__new__`` simplifies
``FormSum((a, 1)) -> a`` (test: ``bool(w == 1)``) and returns ``fs`` itself.  As
``fs`` is an instance of ``FormSum``, Python then calls ``fs.__init__((fs, w))``:
the weights are recomputed as ``w * wc`` *on the input*.  With ``w = 1`` (int) the
result is representation-identical, but with ``w = 1.0`` every weight of the
non-Form components of the input changes type (1 -> 1.0, 2 -> 2.0): its repr
changes, and all its caches (hash, arguments, coefficients) are dropped.

Exits 1 (printing what changed) when the input is mutated, 0 otherwise.
"""

import os
import sys

sys.path.insert(0, os.getcwd())
sys.path.insert(0, os.path.join(os.getcwd(), "test"))

import ufl
from ufl import FunctionSpace, Matrix, Mesh, TestFunction, TrialFunction, dx, triangle
from ufl.form import FormSum
from utils import LagrangeElement

print("ufl from", ufl.__file__)

mesh = Mesh(LagrangeElement(triangle, 1, (2,)))
V = FunctionSpace(mesh, LagrangeElement(triangle, 1))
u = TrialFunction(V)
v = TestFunction(V)

failures = []
for one in (1, 1.0, True):
    fs = u * v * dx + 2 * Matrix(V, V) + Matrix(V, V)
    assert isinstance(fs, FormSum)
    before = {"repr": repr(fs), "weights": repr(fs.weights()), "hash": hash(fs)}
    scaled = one * fs  # e.g. dt * F with dt = 1.0
    after = {"repr": repr(fs), "weights": repr(fs.weights()), "hash": hash(fs)}
    for key in before:
        if before[key] != after[key]:
            failures.append(
                f"{one!r} * fs (returned object is the input: {scaled is fs}): input {key} changed"
                + (f": {before[key]} -> {after[key]}" if key != "repr" else "")
            )

if failures:
    print("C27 VIOLATED on the unmodified tree:")
    for msg in failures:
        print(" -", msg)
    sys.exit(1)
print("ok: inputs untouched")
sys.exit(0)
