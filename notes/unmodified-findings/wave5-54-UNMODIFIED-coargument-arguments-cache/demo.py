"""Unmodified tree: Coargument.arguments(outer_form=...) caches whatever the FIRST call computed.

A query with ``outer_form=True`` on a fresh Coargument fills the lazily cached
``_arguments`` with the outer-form answer; from then on the object reports
different ``arguments()`` than an equal twin, and form operators applied to it
fail.  Exits 1 when the defect is present, 0 otherwise.
"""

import sys

sys.path.insert(0, "/tmp/seed_54")
sys.path.insert(0, "/tmp/seed_54/test")

import ufl  # noqa: E402
from ufl import Coargument, FunctionSpace, Mesh, adjoint, triangle  # noqa: E402
from utils import LagrangeElement  # noqa: E402

print("ufl imported from", ufl.__file__)

mesh = Mesh(LagrangeElement(triangle, 1, (2,)))
V = FunctionSpace(mesh, LagrangeElement(triangle, 1))

c1 = Coargument(V.dual(), 0)
c2 = Coargument(V.dual(), 0)
assert c1.equals(c2) and hash(c1) == hash(c2) and repr(c1) == repr(c2)

reference = c1.arguments()  # (Argument(V, 0), c1): a coargument is a 2-form V* x V -> R

# the "operation": a public query with the documented keyword
c2.arguments(outer_form=True)

problems = []
if c2.arguments() != reference:
    problems.append(
        f"equal coarguments report different arguments():\n     twin : {reference}\n"
        f"     input: {c2.arguments()}"
    )
if c1.arguments(outer_form=True) != (c1,):
    problems.append(
        "and the other way round: after arguments(), arguments(outer_form=True) "
        f"returns {len(c1.arguments(outer_form=True))} arguments instead of 1"
    )
try:
    adjoint(c1)
    adjoint(c2)
except Exception as e:  # noqa: BLE001
    problems.append(f"adjoint(twin) works, adjoint(input) raises {type(e).__name__}: {e}")

if problems:
    print("history-dependent arguments() of a Coargument (unmodified tree):")
    for p in problems:
        print(" -", p)
    sys.exit(1)
print("OK")
sys.exit(0)
