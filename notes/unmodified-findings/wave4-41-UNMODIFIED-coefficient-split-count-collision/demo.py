"""Unmodified-tree finding: compute_form_data(..., do_replace_functions=True,
coefficients_to_split=...) mixes renumbered coefficients (count=0..n-1) with freshly
counted component coefficients, so the preprocessed form depends on the value of the
global Coefficient counter.  Exits 1 when the dependence is observed."""

import os
import subprocess
import sys

ROOT = os.getcwd()
sys.path.insert(0, ROOT)
sys.path.insert(0, os.path.join(ROOT, "test"))

from ufl import (  # noqa: E402
    Coefficient,
    FunctionSpace,
    Measure,
    Mesh,
    MeshSequence,
    TestFunction,
    split,
    triangle,
)
from ufl.algorithms import compute_form_data  # noqa: E402
from ufl.pullback import identity_pullback  # noqa: E402
from ufl.sobolevspace import L2  # noqa: E402
from utils import FiniteElement, LagrangeElement, MixedElement  # noqa: E402


def run(shift):
    cell = triangle
    elem0 = LagrangeElement(cell, 1)
    elem1 = FiniteElement("Discontinuous Lagrange", cell, 1, (), identity_pullback, L2)
    elem = MixedElement([elem0, elem1], make_cell_sequence=True)
    mesh0 = Mesh(LagrangeElement(cell, 1, (2,)), ufl_id=100)
    mesh1 = Mesh(LagrangeElement(cell, 1, (2,)), ufl_id=101)
    V = FunctionSpace(MeshSequence([mesh0, mesh1]), elem)
    V0 = FunctionSpace(mesh0, elem0)
    for _ in range(shift):
        Coefficient(V0)  # unrelated earlier coefficients: shift the global counter
    v0 = TestFunction(V0)
    # Explicit counts, exactly like test/test_mixed_function_space_with_mesh_sequence.py
    f = Coefficient(V, count=1000)
    h = Coefficient(V0, count=2000)
    f0, f1 = split(f)
    dx1 = Measure("dx", mesh0, intersect_measures=(Measure("dx", mesh1),))
    form = f0 * f1 * h * v0 * dx1(999)
    fd = compute_form_data(
        form,
        do_apply_function_pullbacks=True,
        do_apply_integral_scaling=True,
        do_apply_geometry_lowering=True,
        do_replace_functions=True,
        coefficients_to_split=(f,),
    )
    pf = fd.preprocessed_form
    try:
        return f"{pf.signature()[:16]} coefficient-counts={[c.count() for c in pf.coefficients()]}"
    except Exception as e:  # noqa: BLE001
        return f"{type(e).__name__}: {str(e).splitlines()[0]}"


def main():
    if len(sys.argv) > 1:
        print(run(int(sys.argv[1])))
        return 0
    results = {}
    for shift in (0, 1, 2, 7):
        env = dict(os.environ, PYTHONPATH=ROOT)
        results[shift] = subprocess.run(
            [sys.executable, os.path.abspath(__file__), str(shift)],
            env=env, cwd=ROOT, capture_output=True, text=True, check=True, timeout=50,
        ).stdout.strip()
        print(f"{shift} earlier coefficients: {results[shift]}")
    if len(set(results.values())) > 1:
        print("FAIL: preprocessed_form.signature() depends on the global Coefficient counter")
        return 1
    print("OK")
    return 0


if __name__ == "__main__":
    sys.exit(main())
