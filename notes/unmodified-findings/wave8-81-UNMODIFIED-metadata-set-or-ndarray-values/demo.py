"""UNMODIFIED tree: canonicalize_metadata() applies str() to metadata values; for a
(frozen)set value this depends on PYTHONHASHSEED, for a numpy array on the process-wide
numpy print options.  Both end up in Form.signature().  Exit 1 when the defect is present."""
import os
import subprocess
import sys

ROOT = os.path.abspath(os.getcwd())
CHILD = r'''
import sys, warnings
warnings.simplefilter("ignore")
sys.path.insert(0, %(root)r); sys.path.insert(0, %(root)r + "/test")
import numpy as np
import ufl
assert ufl.__file__.startswith(%(root)r), ufl.__file__
from ufl import Mesh, FunctionSpace, Coefficient, triangle, dx
from utils import LagrangeElement
if sys.argv[1] == "printopts":   # unrelated earlier activity in the process
    np.set_printoptions(precision=3)
mesh = Mesh(LagrangeElement(triangle, 1, (2,)))
f = Coefficient(FunctionSpace(mesh, LagrangeElement(triangle, 1)))
a = f * dx(metadata={"flags": frozenset(["alpha", "beta", "gamma", "delta"])})
b = f * dx(metadata={"quadrature_weights": np.array([1.0 / 3.0, 1.0 / 6.0, 0.5])})
print(a.signature(), b.signature())
'''


def run(seed, mode):
    env = dict(os.environ, PYTHONHASHSEED=str(seed), PYTHONPATH=ROOT)
    r = subprocess.run([sys.executable, "-c", CHILD % {"root": ROOT}, mode], env=env, cwd=ROOT,
                       capture_output=True, text=True, timeout=50)
    if r.returncode != 0:
        print("child raised (value rejected?):", r.stderr.strip().splitlines()[-1])
        sys.exit(0)
    return r.stdout.split()


bad = False
set_sigs = {seed: run(seed, "plain")[0] for seed in range(6)}
if len(set(set_sigs.values())) != 1:
    bad = True
    print("FAIL: frozenset metadata value: signature depends on PYTHONHASHSEED:")
    for seed, s in set_sigs.items():
        print("   seed", seed, s[:16])
arr_plain = run(0, "plain")[1]
arr_opts = run(0, "printopts")[1]
if arr_plain != arr_opts:
    bad = True
    print("FAIL: ndarray metadata value: signature depends on numpy print options of the process:")
    print("   default      ", arr_plain[:16])
    print("   precision=3  ", arr_opts[:16])
sys.exit(1 if bad else 0)
