"""UNMODIFIED tree: registering one type whose metaclass *derives* from UFLType
breaks every MultiFunction that relies on the catch-all ``ufl_type`` handler
(Replacer, LowerCompoundAlgebra, DerivativeNodeReplacer, any user MultiFunction
without an ``expr`` handler) - for ALL inputs, not only for the new type.

exit 0: algorithms still work after the registration; exit 1: they do not.
"""

import sys

sys.path.insert(0, "/tmp/seed_63/test")
sys.path.insert(0, "/tmp/seed_63")

from utils import LagrangeElement

import ufl
from ufl import Coefficient, FunctionSpace, Mesh, dx, inner, replace, triangle
from ufl.algorithms import expand_derivatives
from ufl.algorithms.apply_algebra_lowering import apply_algebra_lowering
from ufl.core.operator import Operator
from ufl.core.ufl_type import UFLType, ufl_type
from ufl.corealg.multifunction import MultiFunction

print("ufl from", ufl.__file__)
mesh = Mesh(LagrangeElement(triangle, 1, (2,)))
V = FunctionSpace(mesh, LagrangeElement(triangle, 1))
u, w = Coefficient(V), Coefficient(V)

# Everything works before the downstream type exists
before = (str(replace(u * u, {u: w})), str(apply_algebra_lowering(inner(u, w) * dx)))


class DownstreamMeta(UFLType):
    """A metaclass derived from UFLType.

    This is what a library has to write to combine an Expr with another
    metaclass, e.g. ``class Meta(UFLType, abc.ABCMeta)``.
    """


@ufl_type(num_ops=1, is_scalar=True)
class Tagged(Operator, metaclass=DownstreamMeta):
    """A perfectly ordinary new operator type."""

    __slots__ = ()

    def __init__(self, f):
        Operator.__init__(self, (f,))


assert isinstance(Tagged, UFLType)  # it *is* a registered UFL type

failures = []
for name, thunk in [
    ("replace(u*u, {u: w})", lambda: str(replace(u * u, {u: w}))),
    ("apply_algebra_lowering(inner(u, w)*dx)", lambda: str(apply_algebra_lowering(inner(u, w) * dx))),
    ("expand_derivatives(derivative(u*u*dx, u))", lambda: str(expand_derivatives(ufl.derivative(u * u * dx, u)))),
    ("bare MultiFunction subclass", lambda: type("M", (MultiFunction,), {})()),
]:
    try:
        thunk()
        print("ok  ", name)
    except AttributeError as e:
        print("FAIL", name, "->", type(e).__name__, e)
        failures.append(name)

if failures:
    print("the expressions above do not even contain the new type; results before it was registered:", before)
    sys.exit(1)
sys.exit(0)
