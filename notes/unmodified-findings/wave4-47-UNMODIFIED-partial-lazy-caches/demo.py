"""UNMODIFIED tree: two lazily cached analyses whose answer depends on the call history.

(minor -- neither touches repr/hash/signature, but both make an accessor of an
input answer differently after an earlier call than before it)

1. ``Form._analyze_domains`` assigns ``_integration_domains`` *before* it calls
   ``self.arguments()``.  For a form whose arguments clash (legal to build:
   two trial functions on different spaces) the first ``ufl_domains()`` raises
   ValueError part-way through, and every later call silently returns: the
   aborted call left half of its result behind.

2. ``Coargument.arguments(outer_form=True)`` stores its answer ``(c,)`` in the
   same ``_arguments`` cache that ``c.arguments()`` reads, so after it the
   Coargument reports one argument instead of two (and the other way round).

Exits 1 (printing what changed) when such a history dependence is seen, 0 otherwise.
"""

import os
import sys

sys.path.insert(0, os.getcwd())
sys.path.insert(0, os.path.join(os.getcwd(), "test"))

import ufl
from ufl import Coargument, FunctionSpace, Mesh, TestFunction, TrialFunction, dx, triangle
from utils import LagrangeElement

print("ufl from", ufl.__file__)

mesh = Mesh(LagrangeElement(triangle, 1, (2,)))
V = FunctionSpace(mesh, LagrangeElement(triangle, 1))
W = FunctionSpace(mesh, LagrangeElement(triangle, 2))
v = TestFunction(V)

failures = []


def outcome(call):
    try:
        return repr(call())
    except Exception as e:
        return f"<raises {type(e).__name__}>"


# 1. aborted _analyze_domains
a = TrialFunction(V) * v * dx + TrialFunction(W) * v * dx
first = outcome(a.ufl_domains)
second = outcome(a.ufl_domains)
if first != second:
    failures.append(f"form.ufl_domains(): 1st call {first}, 2nd call {second[:70]}...")

# 2. Coargument.arguments(outer_form=...) shares one cache for two questions
fresh = outcome(Coargument(V.dual(), 0).arguments)
c = Coargument(V.dual(), 0)
c.arguments(outer_form=True)
later = outcome(c.arguments)
if fresh != later:
    failures.append(
        "Coargument.arguments() after arguments(outer_form=True): "
        f"{len(c.arguments())} argument(s) instead of 2"
    )

if failures:
    print("history-dependent accessors on the unmodified tree:")
    for msg in failures:
        print(" -", msg)
    sys.exit(1)
print("ok")
sys.exit(0)
