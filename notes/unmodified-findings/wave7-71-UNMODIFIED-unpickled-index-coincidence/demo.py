"""Unmodified tree: a form that is unpickled from another process keeps its Index counts.  Unpickling
reserves these counts for *later* indices, but an index that already exists in the receiving process
may have the same count as an (unrelated, bound) index of the unpickled form.  The signature labels
indices by count, so the signature of  F_unpickled + G_local  depends on where the Index counter of
the receiving process stood when G's index was created."""
import os, subprocess, sys, tempfile
def _find_root():
    """The ufl tree this demo is run in: cwd, then PYTHONPATH, then the tree the file lives in."""
    here = os.path.dirname(os.path.dirname(os.path.dirname(os.path.abspath(__file__))))
    candidates = [os.getcwd(), *os.environ.get("PYTHONPATH", "").split(os.pathsep), here, "/tmp/seed_71"]
    for cand in candidates:
        if cand and os.path.isdir(os.path.join(cand, "ufl")) and os.path.isdir(os.path.join(cand, "test")):
            return os.path.realpath(cand)
    raise SystemExit("cannot locate the ufl source tree (run with cwd = the tree)")


ROOT = _find_root()
CHILD = r"""
import pickle, sys
sys.path.insert(0, {root!r}); sys.path.insert(0, {root!r} + "/test")
from ufl import Coefficient, FunctionSpace, Index, Mesh, TestFunction, dx, triangle
from utils import LagrangeElement
mode, path = sys.argv[1], sys.argv[2]
if mode == "dump":
    mesh = Mesh(LagrangeElement(triangle, 1, (2,)))
    W = FunctionSpace(mesh, LagrangeElement(triangle, 1, (2,)))
    w = Coefficient(W); u = TestFunction(W)
    a = Index()
    F = (w[a] * u[a]) * dx
    pickle.dump((w, u, F), open(path, "wb"))
    print("SIG", a.count(), F.signature())
else:
    for _ in range(int(mode)):          # prior history: some indices were created earlier
        Index()
    c = Index()                         # a local index that exists before the pickle is loaded
    w, u, F = pickle.load(open(path, "rb"))
    G = (w[c] * w[c]) * u[0] * dx(1)    # same program text in every run
    print("SIG", c.count(), (F + G).signature())
"""
def run(mode, path):
    env = dict(os.environ, PYTHONPATH=ROOT, PYTHONHASHSEED="0")
    out = subprocess.run([sys.executable, "-c", CHILD.format(root=ROOT), mode, path], cwd=ROOT,
                         env=env, capture_output=True, text=True, timeout=50)
    assert out.returncode == 0, out.stderr
    _, cnt, sig = out.stdout.split()
    return cnt, sig
with tempfile.TemporaryDirectory() as d:
    path = os.path.join(d, "F.pkl")
    cnt, sig = run("dump", path)
    print(f"producer : Index count in F = {cnt}")
    res = {}
    for shift in ("0", "1", "50"):
        cnt, sig = run(shift, path)
        res[shift] = sig
        print(f"consumer (Index counter shifted by {shift:>2}): local index count = {cnt:>2}  signature(F+G) {sig[:16]}")
if len(set(res.values())) != 1:
    print("FAIL: signature of F_unpickled + G_local depends on the position of the Index counter")
    sys.exit(1)
sys.exit(0)
