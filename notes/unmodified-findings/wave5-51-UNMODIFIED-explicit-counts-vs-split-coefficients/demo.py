"""UNMODIFIED tree: coefficient splitting draws fresh counts from the global counter, which
collide with the canonical counts 0..n-1 of the replaced coefficients when the user's
coefficients carry explicit counts and the global counter is still small.

Same construction in every child; the only difference is how many unrelated coefficients were
created before (``shift``).  exit 1 if the outcome (signature or exception) depends on it.
"""

import os
import subprocess
import sys

ROOT = os.path.dirname(os.path.dirname(os.path.dirname(os.path.abspath(__file__))))

CHILD = r'''
import sys
sys.path.insert(0, %(root)r)
sys.path.insert(0, %(root)r + "/test")
import ufl
assert ufl.__file__.startswith(%(root)r), ufl.__file__
from utils import LagrangeElement, MixedElement
from ufl import Coefficient, FunctionSpace, Measure, Mesh, MeshSequence, TestFunction, split, triangle
from ufl.algorithms import compute_form_data

shift = int(sys.argv[1])
cell = triangle
mesh0 = Mesh(LagrangeElement(cell, 1, (2,)), ufl_id=100)
mesh1 = Mesh(LagrangeElement(cell, 1, (2,)), ufl_id=101)
elem0, elem1 = LagrangeElement(cell, 1), LagrangeElement(cell, 2)
V0 = FunctionSpace(mesh0, elem0)
for _ in range(shift):
    Coefficient(V0)
V = FunctionSpace(MeshSequence([mesh0, mesh1]), MixedElement([elem0, elem1], make_cell_sequence=True))
v0 = TestFunction(V0)
f = Coefficient(V, count=1000)   # explicit counts, as in test_mixed_function_space_with_mesh_sequence.py
k = Coefficient(V0, count=3000)
f0, f1 = split(f)
dx1 = Measure("dx", mesh1, intersect_measures=(Measure("dx", mesh0),))
form = k * f0 * f1 * v0 * dx1(1)
fd = compute_form_data(form, do_apply_function_pullbacks=True, do_replace_functions=True,
                       coefficients_to_split=(f,))
try:
    print(fd.preprocessed_form.signature())
except ValueError as e:
    print("ValueError:" + str(e).split("\n")[0].replace(" ", "_"))
'''


def run(shift):
    env = dict(os.environ, PYTHONHASHSEED="0", PYTHONPATH=ROOT)
    r = subprocess.run(
        [sys.executable, "-c", CHILD % {"root": ROOT}, str(shift)],
        cwd=ROOT, env=env, capture_output=True, text=True, timeout=50,
    )
    if r.returncode != 0:
        print(r.stdout, r.stderr)
        raise SystemExit("child failed")
    return r.stdout.strip()


def main():
    res = {s: run(s) for s in (0, 1, 2, 5, 40)}
    for s, r in res.items():
        print(f"{s:2d} unrelated coefficients before:", r[:70])
    if len(set(res.values())) > 1:
        print("FAIL: the signature of the preprocessed form depends on the global coefficient counter")
        sys.exit(1)
    print("OK")
    sys.exit(0)


if __name__ == "__main__":
    main()
