"""Unmodified-tree finding: derivative(F, (u, N), dw) with a Coefficient u and a
BaseFormOperator N orders the differentiation variables by .count(), but the two
counts come from *different* global counters.  Exits 1 when the signature of the
(unexpanded) derivative form depends on those counters."""

import os
import subprocess
import sys

ROOT = os.getcwd()
sys.path.insert(0, ROOT)
sys.path.insert(0, os.path.join(ROOT, "test"))

from ufl import (  # noqa: E402
    Coefficient,
    FunctionSpace,
    Mesh,
    TestFunction,
    TrialFunction,
    derivative,
    dx,
    triangle,
)
from ufl.core.external_operator import ExternalOperator  # noqa: E402
from utils import LagrangeElement, MixedElement  # noqa: E402


def run(shift_coefficients, shift_operators):
    mesh = Mesh(LagrangeElement(triangle, 1, (2,)))
    V = FunctionSpace(mesh, LagrangeElement(triangle, 1))
    z = Coefficient(V)
    for _ in range(shift_coefficients):
        Coefficient(V)
    for _ in range(shift_operators):
        ExternalOperator(z, function_space=V)
    u = Coefficient(V)
    g = Coefficient(V)
    N = ExternalOperator(g, function_space=V)
    v = TestFunction(V)
    F = u * N * v * dx
    W = FunctionSpace(mesh, MixedElement([LagrangeElement(triangle, 1), LagrangeElement(triangle, 1)]))
    J = derivative(F, (u, N), TrialFunction(W))
    return f"u.count()={u.count()} N.count()={N.count()} signature={J.signature()[:16]}"


def main():
    if len(sys.argv) > 1:
        print(run(int(sys.argv[1]), int(sys.argv[2])))
        return 0
    results = {}
    for shifts in ((0, 0), (5, 0), (0, 5)):
        env = dict(os.environ, PYTHONPATH=ROOT)
        results[shifts] = subprocess.run(
            [sys.executable, os.path.abspath(__file__), *map(str, shifts)],
            env=env, cwd=ROOT, capture_output=True, text=True, check=True, timeout=50,
        ).stdout.strip()
        print(f"earlier (coefficients, operators) = {shifts}: {results[shifts]}")
    if len({r.split("signature=")[1] for r in results.values()}) > 1:
        print("FAIL: signature of derivative(F, (u, N), dw) depends on unrelated global counters")
        return 1
    print("OK")
    return 0


if __name__ == "__main__":
    sys.exit(main())
