"""UNMODIFIED tree: C27 is violated by ufl.Action / ufl.action.

``Action.__new__`` returns one of its arguments unchanged when the other one is
an Argument/Coargument (identity).  If the returned object is itself an
``Action``, Python then runs ``Action.__init__(returned, left, right)`` on that
*existing* node and overwrites its operands with (left, right) - i.e. with
itself.  The input Action is corrupted: different repr, self-referential
operands, hash() raises RecursionError.

Exit 1 if the input was modified (this is what happens on the unmodified
tree), exit 0 if it was left alone.
"""

import os
import sys

ROOT = os.getcwd()
sys.path.insert(0, os.path.join(ROOT, "test"))
sys.path.insert(0, ROOT)

from utils import LagrangeElement  # noqa: E402

import ufl  # noqa: E402
from ufl import Argument, Coefficient, FunctionSpace, Matrix, Mesh, action, triangle  # noqa: E402
from ufl.classes import Action, Coargument  # noqa: E402

print("ufl imported from", ufl.__file__)

mesh = Mesh(LagrangeElement(triangle, 1, (2,)))
V = FunctionSpace(mesh, LagrangeElement(triangle, 1))


def safe(fn):
    try:
        return fn()
    except RecursionError:
        return "RecursionError"


def snapshot(A, M, u):
    return {
        "repr": repr(A),
        "hash": safe(lambda: hash(A)),
        "left operand is the matrix M": A.left() is M,
        "right operand is the coefficient u": A.right() is u,
        "arguments": safe(A.arguments),
        "coefficients": safe(A.coefficients),
    }


failures = []
cases = [
    ("ufl.action(Coargument, A)", lambda A: action(Coargument(V.dual(), 0), A)),
    ("Action(Coargument, A)", lambda A: Action(Coargument(V.dual(), 0), A)),
    ("Action(A, Argument)", lambda A: Action(A, Argument(V, 0))),
]
for name, op in cases:
    M, u = Matrix(V, V), Coefficient(V)
    A = Action(M, u)  # the 1-form  M u
    before = snapshot(A, M, u)
    result = op(A)
    after = snapshot(A, M, u)
    for key in before:
        if before[key] != after[key]:
            b, a = str(before[key]), str(after[key])
            failures.append(f"{name}: {key} of the input Action changed\n    before: {b[:160]}\n    after:  {a[:160]}")

if failures:
    print("C27 VIOLATED: the input Action was modified")
    for msg in failures:
        print(" -", msg)
    sys.exit(1)
print("OK: input Action untouched")
sys.exit(0)
