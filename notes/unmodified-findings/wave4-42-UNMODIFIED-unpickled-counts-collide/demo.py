"""UNMODIFIED tree: a coefficient received in a pickle (or created with an
explicit ``count=``) does not advance the global Coefficient counter, so the
next coefficient created in the process may get the *same* count -- depending
only on the value of the global counter.  The same form, built in the same
way, then has different signatures for different counter values.

exit(0): property holds, exit(1): property violated.
"""

import os
import subprocess
import sys

ROOT = os.getcwd()
sys.path.insert(0, os.path.join(ROOT, "test"))
sys.path.insert(0, ROOT)

CHILD = r"""
import pickle, sys
import ufl
from ufl import Coefficient, FunctionSpace, Mesh, TestFunction, dx, triangle
from utils import LagrangeElement

mode = sys.argv[1]
if mode == "make":
    mesh = Mesh(LagrangeElement(triangle, 1, (2,)))
    V = FunctionSpace(mesh, LagrangeElement(triangle, 1))
    print(pickle.dumps(Coefficient(V)).hex())
    sys.exit(0)

# prior history that only shifts the global counters
for _ in range(int(sys.argv[3])):
    m0 = Mesh(LagrangeElement(triangle, 1, (2,)))
    Coefficient(FunctionSpace(m0, LagrangeElement(triangle, 1)))

# the form under study, always built like this
f = pickle.loads(bytes.fromhex(sys.argv[2]))  # e.g. a checkpointed solution
V = f.ufl_function_space()
g = Coefficient(V)                            # a new unknown in the same space
v = TestFunction(V)
F = f * g.dx(0) * v * dx
print(f.count(), g.count(), int(f == g), len(F.coefficients()), F.signature())
"""


def run(*args):
    env = dict(os.environ)
    env["PYTHONPATH"] = os.pathsep.join([ROOT, os.path.join(ROOT, "test")])
    r = subprocess.run(
        [sys.executable, "-c", CHILD, *args], capture_output=True, text=True, cwd=ROOT, env=env,
        timeout=50,
    )
    if r.returncode != 0:
        print(r.stdout, r.stderr)
        raise SystemExit(2)
    return r.stdout.split()


def main():
    import ufl

    print("ufl from", ufl.__file__)
    (pickled,) = run("make")
    results = {shift: run("use", pickled, str(shift)) for shift in (0, 1, 5)}
    for shift, (fc, gc, same, ncoeff, sig) in results.items():
        print(f"counters shifted by {shift}: f.count()={fc} g.count()={gc} f==g:{same} "
              f"#coefficients={ncoeff} signature={sig[:24]}")
    if len({r[-1] for r in results.values()}) != 1:
        print("VIOLATION: signature depends on the value of the global coefficient counter")
        sys.exit(1)
    print("OK")
    sys.exit(0)


if __name__ == "__main__":
    main()
