"""Unmodified tree: comparing a form with its stripped twin swaps the user's terminals.

strip_terminal_data() builds UFL-only twins of the (data carrying) terminals of a
form.  The twins compare *equal* to the originals (same count / number, equal
function space, a Mesh with the same ufl_id), so `F.equals(S)` is True - and
expr_equals() then "eagerly DAGifies": it makes the nodes of the left operand
point to the operand tuples of the right operand.  Afterwards the input form F
contains the plain twins instead of the user's own objects (and in the other
direction the stripped form S holds the data carrying objects again, which is
exactly what strip_terminal_data is meant to prevent).

Exit code 0: the terminals found in F (and in S) are the same objects as before.
Exit code 1: they were exchanged.
"""

import os
import sys

sys.path.insert(0, os.getcwd())
sys.path.insert(0, os.path.join(os.getcwd(), "test"))

import ufl
from ufl import Coefficient, FunctionSpace, Mesh, TestFunction, dx, triangle
from ufl.algorithms.analysis import extract_coefficients
from ufl.algorithms.strip_terminal_data import strip_terminal_data
from utils import LagrangeElement

print("ufl imported from", ufl.__file__)


class Function(Coefficient):
    """What every problem solving environment does: a Coefficient that carries data."""

    def __init__(self, V, data):
        super().__init__(V)
        self.data = data


problems = []
mesh = Mesh(LagrangeElement(triangle, 1, (2,)))
V = FunctionSpace(mesh, LagrangeElement(triangle, 1))
v = TestFunction(V)

# --- direction 1: the input form loses the user's objects -----------------------------------
f = Function(V, data=[1.0, 2.0, 3.0])
F = f * v * dx
before = (repr(F), hash(F), F.signature())
S, mapping = strip_terminal_data(F)
assert all(type(c) is Coefficient for c in extract_coefficients(S))
assert F.equals(S)  # a pure query ...
if (repr(F), hash(F), F.signature()) != before:
    problems.append("repr/hash/signature of F changed")
(c,) = extract_coefficients(F)
if c is not f:
    problems.append(
        f"F now contains a {type(c).__name__} instead of the user's {type(f).__name__}: "
        f"has .data: {hasattr(c, 'data')}"
    )
# (F.coefficients() was cached by F.signature() above and still returns f; a form whose
# analysis is requested for the first time after the comparison reports the twin)
h = Function(V, data=[7.0])
H = h * v * dx
SH, _ = strip_terminal_data(H)
assert H.equals(SH)
(c,) = H.coefficients()
if c is not h:
    problems.append(
        f"H.coefficients()[0] is a plain {type(c).__name__} (is h: {c is h}, == h: {c == h})"
    )

# --- direction 2: the stripped form gets the data back --------------------------------------
g = Function(V, data=[4.0, 5.0, 6.0])
G = g * v * dx
T, mapping = strip_terminal_data(G)
cache = {T: "compiled kernel"}  # cache keyed on the stripped form, as the docstring suggests
assert cache.get(G) == "compiled kernel"  # dict lookup evaluates T == G
(c,) = extract_coefficients(T)
if type(c) is not Coefficient:
    problems.append(
        f"the stripped form T (a cache key) now holds the user's {type(c).__name__} "
        f"with its data {c.data}"
    )

if problems:
    print("C27 VIOLATED on the unmodified tree: == exchanged the terminals of its operands")
    for p in problems:
        print(" -", p)
    sys.exit(1)
print("OK")
sys.exit(0)
