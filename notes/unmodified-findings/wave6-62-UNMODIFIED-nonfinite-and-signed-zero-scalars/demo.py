"""UNMODIFIED tree: scalar literals with nan / inf / signed zero break C13. exit 1 = violated."""

import os
import pickle
import sys
from math import inf, nan

HERE = os.path.dirname(os.path.abspath(__file__))
ROOT = os.path.abspath(os.path.join(HERE, "..", ".."))
sys.path.insert(0, ROOT)
sys.path.insert(0, os.path.join(ROOT, "test"))

import utils  # noqa: E402
from utils import FiniteElement  # noqa: E402

import ufl  # noqa: E402
import ufl.classes  # noqa: E402
from ufl import Coefficient, FunctionSpace, Mesh, as_ufl, triangle  # noqa: E402
from ufl.pullback import IdentityPullback, identity_pullback  # noqa: E402
from ufl.sobolevspace import H1  # noqa: E402

print("ufl from", ufl.__file__)
ns = dict(vars(ufl.classes))
ns.update(vars(ufl))
ns.update(utils=utils, IdentityPullback=IdentityPullback, H1=H1)


def lagrange(degree, shape=()):
    return FiniteElement("Lagrange", triangle, degree, shape, identity_pullback, H1)


mesh = Mesh(lagrange(1, (2,)))
f = Coefficient(FunctionSpace(mesh, lagrange(1)))
problems = []

# --- nan: == is not reflexive, equal repr/hash but unequal, no round trip
x = as_ufl(nan)
if not (x == x):
    problems.append(f"{x!r} == itself is False (== not reflexive)")
a, b = f * as_ufl(nan), f * as_ufl(nan)
if repr(a) == repr(b) and hash(a) == hash(b) and not (a == b):
    problems.append("f*nan built twice: same repr, same hash, but a != b")
if not (pickle.loads(pickle.dumps(a)) == a):
    problems.append("pickle round trip of f*nan is not equal to the original")
for name, val in (("nan", nan), ("inf", inf), ("-inf", -inf)):
    e = f * as_ufl(val)
    try:
        if not (eval(repr(e), dict(ns)) == e):
            problems.append(f"eval(repr(f*{name})) != f*{name}")
    except Exception as ex:
        problems.append(f"eval(repr(f*{name})) raises {type(ex).__name__}: {ex}   [{repr(as_ufl(val))}]")
z = as_ufl(complex(nan, 1.0))
try:
    eval(repr(z), dict(ns))
except Exception as ex:
    problems.append(f"eval(repr({z!r})) raises {type(ex).__name__}: {ex}")

# --- signed zero in a complex literal: equal, different repr and hash
p, q = as_ufl(complex(-0.0, 1.0)), as_ufl(complex(0.0, 1.0))
if p == q and (hash(p) != hash(q) or repr(p) != repr(q)):
    problems.append(f"{p!r} == {q!r} but hash equal: {hash(p) == hash(q)}, repr equal: {repr(p) == repr(q)}")
if p == q and not (f * p == f * q):
    problems.append("p == q but f*p != f*q (equal operands are not interchangeable)")

if problems:
    print("C13 VIOLATED on the unmodified tree:")
    for s in problems:
        print("  -", s)
    sys.exit(1)
print("ok")
sys.exit(0)
