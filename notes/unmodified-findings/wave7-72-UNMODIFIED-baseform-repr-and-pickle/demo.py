"""Unmodified tree: BaseForm classes that do not survive eval(repr(.)) / pickle."""

import os
import pickle
import sys

sys.path.insert(0, os.getcwd())
sys.path.insert(0, os.path.join(os.getcwd(), "test"))

import ufl
import ufl.classes
import utils
from ufl import Coefficient, FunctionSpace, Mesh, TestFunction, TrialFunction, dx, triangle
from ufl.classes import Action, Adjoint, FormSum, Matrix, ZeroBaseForm
from ufl.pullback import identity_pullback
from ufl.sobolevspace import H1
from utils import FiniteElement

print("ufl imported from", ufl.__file__)

namespace = dict(vars(ufl.classes))
namespace.update(vars(ufl))
namespace.update(utils=utils, IdentityPullback=type(identity_pullback), H1=H1)

mesh = Mesh(FiniteElement("Lagrange", triangle, 1, (2,), identity_pullback, H1))
V = FunctionSpace(mesh, FiniteElement("Lagrange", triangle, 1, (), identity_pullback, H1))
f = Coefficient(V)
u, v = TrialFunction(V), TestFunction(V)

objects = {
    "Matrix(V, V)": Matrix(V, V),
    "ZeroBaseForm((v, u))": ZeroBaseForm((v, u)),
    "ZeroBaseForm(())": ZeroBaseForm(()),
    "FormSum((u*v*dx, 2), (Matrix(V, V), 1))": FormSum((u * v * dx, 2), (Matrix(V, V), 1)),
    "Adjoint(Matrix(V, V))": Adjoint(Matrix(V, V)),
    "Action(Matrix(V, V), f)": Action(Matrix(V, V), f),
    # the same without a Matrix inside (whose repr is broken by itself)
    "Adjoint(u*v*dx)": Adjoint(u * v * dx),
    "Action(u*v*dx, f)": Action(u * v * dx, f),
    "FormSum((u*v*dx, 2), (Adjoint(u*v*dx), 3))": FormSum((u * v * dx, 2), (Adjoint(u * v * dx), 3)),
}

failures = []
for name, obj in objects.items():
    r = repr(obj)
    try:
        back = eval(r, namespace)
        if not bool(back == obj):
            failures.append(f"{name}: eval(repr(.)) is not equal")
    except Exception as e:
        failures.append(f"{name}: repr is not evaluable: {type(e).__name__}: {str(e)[:90]}")
    try:
        back = pickle.loads(pickle.dumps(obj))
        if not bool(back == obj):
            failures.append(f"{name}: pickle round trip is not equal")
        elif hash(back) != hash(obj) or repr(back) != r:
            failures.append(f"{name}: pickle round trip changes hash or repr")
    except Exception as e:
        failures.append(f"{name}: cannot be pickled: {type(e).__name__}: {str(e)[:90]}")

if failures:
    print("C13 VIOLATED on this tree:")
    for line in failures:
        print("  -", line)
    sys.exit(1)
print("ok")
sys.exit(0)
