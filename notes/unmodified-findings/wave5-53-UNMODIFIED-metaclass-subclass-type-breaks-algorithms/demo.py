"""UNMODIFIED tree: one late type with a metaclass derived from UFLType breaks real algorithms.

MultiFunction._update_handlers (and Transformer._update_handlers) fall back to the
``ufl_type`` handler only ``if type(classobject) is UFLType``.  A downstream type whose
metaclass is a *subclass* of UFLType (e.g. to combine it with ABCMeta) makes the MRO walk
re-raise AttributeError for every algorithm without an ``expr`` handler - such as
LowerCompoundAlgebra (apply_algebra_lowering) and Replacer (replace) - and from then on
these algorithms cannot even be instantiated, for any expression.
"""

import sys

sys.path.insert(0, "/tmp/seed_53")
sys.path.insert(0, "/tmp/seed_53/test")
import ufl
from ufl import Coefficient, FunctionSpace, Mesh, inner, triangle
from ufl.algorithms import replace
from ufl.algorithms.apply_algebra_lowering import apply_algebra_lowering
from ufl.core.operator import Operator
from ufl.core.ufl_type import UFLType, ufl_type
from utils import LagrangeElement

assert ufl.__file__.startswith("/tmp/seed_53/")

mesh = Mesh(LagrangeElement(triangle, 1, (2,)))
V = FunctionSpace(mesh, LagrangeElement(triangle, 1))
u = Coefficient(V)
w = Coefficient(V)
before = (str(apply_algebra_lowering(inner(u, u))), str(replace(u * u, {u: w})))


class DownstreamMeta(UFLType):
    """A metaclass of a downstream library (e.g. UFLType combined with something else)."""


@ufl_type(num_ops=1, inherit_shape_from_operand=0, inherit_indices_from_operand=0)
class Late(Operator, metaclass=DownstreamMeta):
    __slots__ = ()

    def __init__(self, a):
        Operator.__init__(self, (a,))


problems = []
for name, thunk in (
    ("apply_algebra_lowering(inner(u, u))", lambda: str(apply_algebra_lowering(inner(u, u)))),
    ("replace(u*u, {u: w})", lambda: str(replace(u * u, {u: w}))),
    ("apply_algebra_lowering(Late(u))", lambda: str(apply_algebra_lowering(Late(u)))),
):
    try:
        print(name, "->", thunk())
    except Exception as e:
        problems.append(f"{name} raised {type(e).__name__}: {e}")
if problems:
    print("before the registration:", before)
    print("FAIL after registering Late (metaclass DownstreamMeta):")
    for p in problems:
        print("  ", p)
    sys.exit(1)
sys.exit(0)
