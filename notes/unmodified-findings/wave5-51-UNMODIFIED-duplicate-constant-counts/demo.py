"""UNMODIFIED tree: two Constants with the same count (but different shape) in one form make
the signature depend on PYTHONHASHSEED.

Equal counts arise from explicit ``count=`` arguments, or without any explicit count when a
pickled form (constant count 0) is loaded into a fresh process and combined with a constant
created there (count 0 again, the counter is not advanced by unpickling).  Both variants are run.

exit 1 if the signatures differ between hash seeds.
"""

import os
import subprocess
import sys
import tempfile

ROOT = os.path.dirname(os.path.dirname(os.path.dirname(os.path.abspath(__file__))))

CHILD = r'''
import pickle, sys
sys.path.insert(0, %(root)r)
sys.path.insert(0, %(root)r + "/test")
import ufl
assert ufl.__file__.startswith(%(root)r), ufl.__file__
from utils import LagrangeElement
from ufl import Constant, FunctionSpace, Measure, Mesh, TestFunction, triangle

mode, path = sys.argv[1], sys.argv[2]
mesh = Mesh(LagrangeElement(triangle, 1, (2,)))
V = FunctionSpace(mesh, LagrangeElement(triangle, 1))
v = TestFunction(V)
dx = Measure("dx", mesh)
if mode == "explicit":
    c1 = Constant(mesh, shape=(), count=3)
    c2 = Constant(mesh, shape=(2,), count=3)
    F = c1 * c2[0] * v * dx
elif mode == "dump":
    c1 = Constant(mesh)
    with open(path, "wb") as fh:
        pickle.dump(c1 * v * dx, fh)
    sys.exit(0)
else:  # load: combine the unpickled form with a constant created in this process
    with open(path, "rb") as fh:
        L1 = pickle.load(fh)
    c2 = Constant(mesh, shape=(2,))
    F = L1 + c2[0] * v * dx
print(F.signature(), sorted(F.constant_numbering().values()), [c.ufl_shape for c in F.constant_numbering()])
'''


def run(mode, path, seed):
    env = dict(os.environ, PYTHONHASHSEED=str(seed), PYTHONPATH=ROOT)
    r = subprocess.run(
        [sys.executable, "-c", CHILD % {"root": ROOT}, mode, path],
        cwd=ROOT, env=env, capture_output=True, text=True, timeout=50,
    )
    if r.returncode != 0:
        print(r.stdout, r.stderr)
        raise SystemExit("child failed")
    return r.stdout.strip()


def main():
    bad = 0
    with tempfile.TemporaryDirectory() as tmp:
        path = os.path.join(tmp, "L1.pickle")
        run("dump", path, 0)
        for mode in ("explicit", "load"):
            sigs = {seed: run(mode, path, seed) for seed in range(1, 9)}
            distinct = sorted(set(s.split()[0][:16] for s in sigs.values()))
            print(mode, "-> signatures over 8 hash seeds:", distinct)
            for seed, s in sigs.items():
                print("   seed", seed, s.split()[0][:16], s.split(" ", 1)[1])
            bad += len(distinct) > 1
    if bad:
        print("FAIL: signature depends on PYTHONHASHSEED")
        sys.exit(1)
    print("OK")
    sys.exit(0)


if __name__ == "__main__":
    main()
