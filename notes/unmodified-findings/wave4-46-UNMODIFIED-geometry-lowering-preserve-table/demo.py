"""UNMODIFIED tree: GeometryLoweringApplier has a private per-type table that is never refreshed.

Exit 1 = C20 violated (this happens on the unmodified tree), exit 0 = fine.
"""

import os
import sys

sys.path.insert(0, os.getcwd())
sys.path.insert(0, os.path.join(os.getcwd(), "test"))

import ufl
from ufl import Coefficient, FunctionSpace, Mesh, triangle
from ufl.algorithms.apply_geometry_lowering import GeometryLoweringApplier
from ufl.classes import Jacobian
from ufl.core.ufl_type import ufl_type
from ufl.corealg.map_dag import map_expr_dag
from utils import LagrangeElement

print("using", ufl.__file__)
mesh = Mesh(LagrangeElement(triangle, 1, (2,)))
f = Coefficient(FunctionSpace(mesh, LagrangeElement(triangle, 1)))

old = GeometryLoweringApplier()  # algorithm object created (and used) before the registration
map_expr_dag(old, Jacobian(mesh)[0, 0] * f)


@ufl_type()
class DemoJacobian(Jacobian):
    """A geometric type registered by a downstream library."""

    __slots__ = ()


e = DemoJacobian(mesh)[0, 0] * f
want = map_expr_dag(GeometryLoweringApplier(), e)
print("fresh applier :", want)
try:
    got = map_expr_dag(old, e)  # MultiFunction tables are refreshed here, _preserve_types is not
    print("old applier   :", got)
    sys.exit(0 if got == want else 1)
except Exception as exc:
    print(f"old applier   : {type(exc).__name__}: {exc}")
    print("C20 VIOLATED: the applier created before the registration cannot handle the new type")
    sys.exit(1)
