"""UNMODIFIED tree: a form with two Constants that share a count (legal: they
differ in shape, so they are different, unequal terminals) has a
PYTHONHASHSEED dependent Form.constants() order, constant numbering and
signature.  The same pickled form, which compares equal to itself in every
process, therefore has different signatures in different processes.

exit 1 = violated (this is what happens on the unmodified tree).
"""
import os
import pickle
import subprocess
import sys

ROOT = os.getcwd()
sys.path.insert(0, ROOT)
sys.path.insert(0, os.path.join(ROOT, "test"))

CHILD = r"""
import sys, pickle
sys.path.insert(0, %(root)r); sys.path.insert(0, %(root)r + "/test")
import ufl, utils
F = pickle.loads(bytes.fromhex(sys.argv[1]))
assert repr(F) == sys.argv[2]  # the very same form in every process
print([c.ufl_shape for c in F.constants()], F.signature()[:16])
"""


def main():
    import ufl
    from ufl import Constant, Mesh, dx, triangle
    from utils import LagrangeElement

    print("ufl from", ufl.__file__)
    mesh = Mesh(LagrangeElement(triangle, 1, (2,)), ufl_id=1)
    a = Constant(mesh, (), 3)
    b = Constant(mesh, (2,), 3)
    c = Constant(mesh, (3,), 3)
    assert a != b and b != c
    F = (a * b[0] * c[1]) * dx
    blob = pickle.dumps(F).hex()
    src = repr(F)

    outs = set()
    for seed in range(8):
        env = dict(os.environ, PYTHONHASHSEED=str(seed), PYTHONPATH=ROOT)
        out = subprocess.run(
            [sys.executable, "-c", CHILD % {"root": ROOT}, blob, src],
            env=env, cwd=ROOT, capture_output=True, text=True, timeout=50,
        )
        if out.returncode != 0:
            print(out.stderr)
            return 1
        print("PYTHONHASHSEED=%d:" % seed, out.stdout.strip())
        outs.add(out.stdout.strip())
    if len(outs) > 1:
        print("C13 VIOLATED (unmodified tree): the same (equal, same repr) form has %d different "
              "constants() orders / signatures depending on the hash seed" % len(outs))
        return 1
    print("ok")
    return 0


if __name__ == "__main__":
    sys.exit(main())
