"""UNMODIFIED tree: literal values that break C13 (exit 1 = violations found).

Run as:  cd <tree> && PYTHONPATH=<tree> python out/UNMODIFIED-float-nan-inf-complex-negative-zero/demo.py
"""

import os
import pickle
import sys

ROOT = os.getcwd()
sys.path.insert(0, os.path.join(ROOT, "test"))
sys.path.insert(0, ROOT)

import ufl
import ufl.classes
import utils
from ufl import H1, Coefficient, FunctionSpace, Mesh, as_ufl, identity_pullback, triangle
from ufl.classes import ComplexValue
from utils import FiniteElement

print("ufl from", ufl.__file__)
NS = dict(vars(ufl.classes))
NS.update(vars(ufl))
NS["utils"] = utils

problems = []


def check(cond, msg):
    if not cond:
        problems.append(msg)
        print("VIOLATION:", msg)


mesh = Mesh(FiniteElement("Lagrange", triangle, 1, (2,), identity_pullback, H1), ufl_id=0)
V = FunctionSpace(mesh, FiniteElement("Lagrange", triangle, 1, (), identity_pullback, H1))
u = Coefficient(V, count=0)

# --- 1. FloatValue(nan): == is not reflexive, copies are not equal, repr is not evaluable
nan = as_ufl(float("nan"))
check(nan == nan, "FloatValue(nan) == itself is False (ScalarValue.__eq__ compares the raw floats)")
e = nan * u
check(e == pickle.loads(pickle.dumps(e)), "pickle copy of nan*u is not == nan*u")
check(e == nan * u, "nan*u != nan*u (two products of the very same operand objects)")
for x in (nan, as_ufl(float("inf")), as_ufl(complex(1, float("inf")))):
    try:
        check(eval(repr(x), NS) == x, f"eval(repr({x!r})) != original")
    except Exception as exc:
        check(False, f"repr {x!r} cannot be evaluated: {type(exc).__name__}: {exc}")

# --- 2. ComplexValue with a negative zero real part: equal values, different repr and hash
a = as_ufl(-1j)  # complex(-0.0, -1.0)
b = as_ufl(0 - 1j)  # complex(0.0, -1.0)
check(not (a == b) or hash(a) == hash(b), f"{a!r} == {b!r} but the hashes differ")
check(not (a == b) or repr(a) == repr(b), f"{a!r} == {b!r} but the reprs differ")
check(not (a == b) or (u * a == u * b), "a == b but u*a != u*b (not interchangeable)")
c = -ComplexValue(1j)
d = ComplexValue(complex(0, -1))
check(not (c == d) or repr(c) == repr(d), f"-ComplexValue(1j) == {d!r} but prints as {c!r}")

if problems:
    print(f"{len(problems)} violation(s)")
    sys.exit(1)
print("OK")
sys.exit(0)
