"""UNMODIFIED tree: FormSum, Action and Adjoint objects cannot be unpickled. exit 1 = violated."""

import os
import pickle
import sys

HERE = os.path.dirname(os.path.abspath(__file__))
ROOT = os.path.abspath(os.path.join(HERE, "..", ".."))
sys.path.insert(0, ROOT)
sys.path.insert(0, os.path.join(ROOT, "test"))

from utils import FiniteElement  # noqa: E402

import ufl  # noqa: E402
from ufl import (  # noqa: E402
    Action,
    Adjoint,
    Coefficient,
    FunctionSpace,
    Matrix,
    Mesh,
    TestFunction,
    TrialFunction,
    dx,
    triangle,
)
from ufl.pullback import identity_pullback  # noqa: E402
from ufl.sobolevspace import H1  # noqa: E402

print("ufl from", ufl.__file__)


def lagrange(degree, shape=()):
    return FiniteElement("Lagrange", triangle, degree, shape, identity_pullback, H1)


mesh = Mesh(lagrange(1, (2,)))
V = FunctionSpace(mesh, lagrange(2))
u, v, f = TrialFunction(V), TestFunction(V), Coefficient(V)
M = Matrix(V, V)
objs = {
    "FormSum  (u*v*dx + Matrix)": u * v * dx + M,
    "FormSum  (2*Matrix)": 2 * M,
    "Action   (Matrix, f)": Action(M, f),
    "Adjoint  (Matrix)": Adjoint(M),
}
problems = []
for name, o in objs.items():
    data = pickle.dumps(o)  # pickling works ...
    try:
        o2 = pickle.loads(data)  # ... unpickling does not
        if not bool(o2 == o) or hash(o2) != hash(o) or repr(o2) != repr(o):
            problems.append(f"{name}: round trip not equal")
    except Exception as ex:
        problems.append(f"{name}: pickle.loads raises {type(ex).__name__}: {ex}")
if problems:
    print("C13 VIOLATED on the unmodified tree:")
    for s in problems:
        print("  -", s)
    sys.exit(1)
print("ok")
sys.exit(0)
