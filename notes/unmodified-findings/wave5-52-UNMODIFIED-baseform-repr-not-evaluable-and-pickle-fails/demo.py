"""UNMODIFIED tree: Matrix / ZeroBaseForm / FormSum / Adjoint / Action do not round-trip
through eval(repr(.)), and FormSum / Adjoint / Action cannot be unpickled at all.

Exit 1 = violations found.
Run as:  cd <tree> && PYTHONPATH=<tree> python out/UNMODIFIED-baseform-repr-not-evaluable-and-pickle-fails/demo.py
"""

import os
import pickle
import sys

ROOT = os.getcwd()
sys.path.insert(0, os.path.join(ROOT, "test"))
sys.path.insert(0, ROOT)

import ufl
import ufl.classes
import utils
from ufl import (
    H1,
    Action,
    Adjoint,
    Coefficient,
    Cofunction,
    FunctionSpace,
    Matrix,
    Mesh,
    TestFunction,
    TrialFunction,
    dx,
    identity_pullback,
    triangle,
)
from ufl.classes import FormSum, ZeroBaseForm
from utils import FiniteElement

print("ufl from", ufl.__file__)
NS = dict(vars(ufl.classes))
NS.update(vars(ufl))
NS["utils"] = utils
problems = []


def check(cond, msg):
    if not cond:
        problems.append(msg)
        print("VIOLATION:", msg)


mesh = Mesh(FiniteElement("Lagrange", triangle, 1, (2,), identity_pullback, H1), ufl_id=0)
V = FunctionSpace(mesh, FiniteElement("Lagrange", triangle, 1, (), identity_pullback, H1))
u = Coefficient(V, count=0)
v = TestFunction(V)
M = Matrix(V, V, count=0)

du = TrialFunction(V)
a = u * du * v * dx  # a bilinear Form
c = Cofunction(V.dual(), count=1)
objects = {
    "Matrix(V, V)": M,
    "ZeroBaseForm((v,))": ZeroBaseForm((v,)),
    "ZeroBaseForm((v, du))": ZeroBaseForm((v, du)),
    "FormSum((u*v*dx, 2), (c, 1))": FormSum((u * v * dx, 2), (c, 1)),
    "Adjoint(a)": Adjoint(a),
    "Action(a, u)": Action(a, u),
}
for name, obj in objects.items():
    try:
        back = eval(repr(obj), NS)
        check(bool(back == obj), f"{name}: eval(repr(.)) is not == the original")
    except Exception as exc:
        check(False, f"{name}: repr cannot be evaluated: {type(exc).__name__}: {exc}")
    try:
        back = pickle.loads(pickle.dumps(obj))
        check(bool(back == obj) and hash(back) == hash(obj), f"{name}: pickle copy is not equal")
    except Exception as exc:
        check(False, f"{name}: pickle round trip raises {type(exc).__name__}: {exc}")

if problems:
    print(f"{len(problems)} violation(s)")
    sys.exit(1)
print("OK")
sys.exit(0)
