"""UNMODIFIED tree: balance_modifiers consults an import-time table keyed by handler name.

BalanceModifiers dispatches a late subclass of Grad to its ``grad`` rule through the MRO,
but the rule then looks the node up in ``modifier_precedence``, a dict built at import from
the handler names of six built-in classes: KeyError for the type registered later.
"""

import sys

sys.path.insert(0, "/tmp/seed_53")
sys.path.insert(0, "/tmp/seed_53/test")
import ufl
from ufl import Coefficient, FunctionSpace, Mesh, grad, triangle
from ufl.algorithms.balancing import balance_modifiers
from ufl.classes import Grad
from ufl.core.ufl_type import ufl_type
from utils import LagrangeElement

assert ufl.__file__.startswith("/tmp/seed_53/")
mesh = Mesh(LagrangeElement(triangle, 1, (2,)))
V = FunctionSpace(mesh, LagrangeElement(triangle, 1))
f = Coefficient(V)
print("built-in:", balance_modifiers(grad(f("+"))))


@ufl_type(num_ops=1, inherit_indices_from_operand=0, is_terminal_modifier=True)
class WeakGrad(Grad):
    """A gradient type of a downstream library."""

    __slots__ = ()


e = WeakGrad(f("+"))
assert type(e) is WeakGrad
try:
    print("late    :", balance_modifiers(e))
except KeyError as ex:
    print(f"FAIL: balance_modifiers(WeakGrad(f('+'))) raised KeyError({ex}) "
          "(expected (weak_grad(w))(+) in analogy to (grad(w))(+))")
    sys.exit(1)
sys.exit(0)
