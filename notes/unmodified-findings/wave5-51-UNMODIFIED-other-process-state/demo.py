"""UNMODIFIED tree: two more pieces of process state that enter ``Form.signature()``.

(a) the raw ``_ufl_typecode_`` of every operator is hashed; for a type registered after
    ``import ufl`` (a user-defined ``@ufl_type`` operator) the typecode is the value of the
    global type counter, i.e. it depends on how many other types were registered before;
(b) ``canonicalize_metadata`` applies ``str()`` to numpy arrays in the integral metadata
    (custom quadrature points/weights), so the signature depends on ``numpy.set_printoptions``.

exit 1 if either signature depends on that state (both do on the unmodified tree).
"""

import os
import subprocess
import sys

ROOT = os.path.dirname(os.path.dirname(os.path.dirname(os.path.abspath(__file__))))

CHILD = r'''
import sys
sys.path.insert(0, %(root)r)
sys.path.insert(0, %(root)r + "/test")
import numpy as np
import ufl
assert ufl.__file__.startswith(%(root)r), ufl.__file__
from utils import LagrangeElement
from ufl import Coefficient, FunctionSpace, Measure, Mesh, TestFunction, triangle
from ufl.core.operator import Operator
from ufl.core.ufl_type import ufl_type

what, state = sys.argv[1], sys.argv[2]
mesh = Mesh(LagrangeElement(triangle, 1, (2,)))
V = FunctionSpace(mesh, LagrangeElement(triangle, 1))
f, v = Coefficient(V), TestFunction(V)
dx = Measure("dx", mesh)

if what == "typecode":
    if state == "1":
        @ufl_type(num_ops=1, inherit_shape_from_operand=0, inherit_indices_from_operand=0)
        class Unrelated(Operator):
            __slots__ = ()
            def __init__(self, a):
                Operator.__init__(self, (a,))

    @ufl_type(num_ops=1, inherit_shape_from_operand=0, inherit_indices_from_operand=0)
    class MyOp(Operator):
        __slots__ = ()
        def __init__(self, a):
            Operator.__init__(self, (a,))

    F = MyOp(f) * v * dx
else:
    if state == "1":
        np.set_printoptions(precision=3)
    md = {"quadrature_rule": "custom",
          "quadrature_points": np.array([[1 / 3, 1 / 3], [0.2, 0.6]]),
          "quadrature_weights": np.array([0.25, 0.25])}
    F = f * v * dx(metadata=md)
print(F.signature())
'''


def run(what, state):
    env = dict(os.environ, PYTHONHASHSEED="0", PYTHONPATH=ROOT)
    r = subprocess.run(
        [sys.executable, "-c", CHILD % {"root": ROOT}, what, state],
        cwd=ROOT, env=env, capture_output=True, text=True, timeout=50,
    )
    if r.returncode != 0:
        print(r.stdout, r.stderr)
        raise SystemExit("child failed")
    return r.stdout.strip()


def main():
    bad = 0
    for what, descr in (("typecode", "another UFL type registered before MyOp"),
                        ("numpy", "numpy.set_printoptions(precision=3) called before")):
        a, b = run(what, "0"), run(what, "1")
        print(f"{what:8s}: plain {a[:16]}   with {descr}: {b[:16]}", "OK" if a == b else "DIFFERS")
        bad += a != b
    sys.exit(1 if bad else 0)


if __name__ == "__main__":
    main()
