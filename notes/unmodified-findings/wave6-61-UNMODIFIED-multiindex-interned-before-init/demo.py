"""UNMODIFIED tree: MultiIndex.__new__ puts the new object into the process wide
MultiIndex._cache *before* it is initialised.  If the construction is cut short
between the two steps (RecursionError because little stack is left, KeyboardInterrupt,
MemoryError) the half built object stays interned and every later form in the process
that needs this fixed multi index fails, instead of getting the signature it gets
in a process where the earlier construction was not interrupted.

exit(1) if a form built AFTER the aborted construction cannot be built / signed.
"""

import os
import sys

ROOT = os.getcwd()
sys.path.insert(0, ROOT)
sys.path.insert(0, os.path.join(ROOT, "test"))

from ufl import Coefficient, FunctionSpace, Mesh, TestFunction, dx, triangle  # noqa: E402
from utils import LagrangeElement  # noqa: E402

DIM = 7  # component 6 of a 7-vector: a fixed index nobody used before in this process


def build():
    mesh = Mesh(LagrangeElement(triangle, 1, (2,)))
    V = FunctionSpace(mesh, LagrangeElement(triangle, 1, (DIM,)))
    u = Coefficient(V)
    v = TestFunction(V)
    return u[DIM - 1] * v[DIM - 1] * dx


def depth():
    n, f = 0, sys._getframe()
    while f is not None:
        n, f = n + 1, f.f_back
    return n


from ufl.core.multiindex import FixedIndex, MultiIndex  # noqa: E402

old = sys.getrecursionlimit()
aborted = 0
fixed = FixedIndex(DIM - 1)
for frames_left in range(1, 6):
    # some code deep in a call chain needs the multi index (DIM-1,) for the first time
    sys.setrecursionlimit(depth() + frames_left)
    try:
        MultiIndex((fixed,))
    except RecursionError:
        aborted += 1
    finally:
        sys.setrecursionlimit(old)
print(f"{aborted} constructions of MultiIndex(({DIM - 1},)) were aborted by RecursionError")

# Later, with plenty of stack: the same form must be constructible and have the signature
# it has in a fresh process.
try:
    sig = build().signature()
except Exception as e:  # noqa: BLE001
    print(f"VIOLATED on the unmodified tree: building the form later fails: {type(e).__name__}: {e}")
    sys.exit(1)
print("OK: form built after the aborted attempts, signature", sig[:16])
sys.exit(0)
