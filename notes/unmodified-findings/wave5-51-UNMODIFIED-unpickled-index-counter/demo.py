"""UNMODIFIED tree: a pickled form, loaded in a fresh process and preprocessed there, has
another preprocessed signature than in the process that built it.

The pickle stores the counts of the free ``Index`` objects of the form, but the global Index
counter of the loading process knows nothing about them.  The indices that
``apply_algebra_lowering`` creates in the loading process therefore *collide* with the
indices of the form (same count == same index), the lowered expression is a different one
(here an inner summation index shadows the outer one), and
``compute_form_data(F).preprocessed_form.signature()`` differs between the two processes
although ``F.signature()`` agrees.

exit 1 if the preprocessed signatures differ (they do on the unmodified tree).
"""

import os
import subprocess
import sys
import tempfile

ROOT = os.path.dirname(os.path.dirname(os.path.dirname(os.path.abspath(__file__))))

CHILD = r'''
import pickle, sys
sys.path.insert(0, %(root)r)
sys.path.insert(0, %(root)r + "/test")
import ufl
assert ufl.__file__.startswith(%(root)r), ufl.__file__
from utils import LagrangeElement
from ufl import Coefficient, FunctionSpace, Index, Measure, Mesh, dot, triangle
from ufl.algorithms import compute_form_data

mode, path = sys.argv[1], sys.argv[2]
if mode == "build":
    mesh = Mesh(LagrangeElement(triangle, 1, (2,)))
    VT = FunctionSpace(mesh, LagrangeElement(triangle, 1, (2, 2)))
    VV = FunctionSpace(mesh, LagrangeElement(triangle, 1, (2,)))
    T, g, h = Coefficient(VT), Coefficient(VV), Coefficient(VV)
    i, j = Index(), Index()
    F = dot(T, g)[j] * h[j] * Measure("dx", mesh)
    with open(path, "wb") as fh:
        pickle.dump(F, fh)
else:
    with open(path, "rb") as fh:
        F = pickle.load(fh)
fd = compute_form_data(F)
print(F.signature())
print(fd.preprocessed_form.signature())
print(str(fd.preprocessed_form.integrals()[0].integrand()))
'''


def run(mode, path):
    env = dict(os.environ, PYTHONHASHSEED="0", PYTHONPATH=ROOT)
    r = subprocess.run(
        [sys.executable, "-c", CHILD % {"root": ROOT}, mode, path],
        cwd=ROOT, env=env, capture_output=True, text=True, timeout=50,
    )
    if r.returncode != 0:
        print(r.stdout, r.stderr)
        raise SystemExit("child failed")
    return r.stdout.strip().split("\n")


def main():
    with tempfile.TemporaryDirectory() as tmp:
        path = os.path.join(tmp, "F.pickle")
        a = run("build", path)
        b = run("load", path)
    print("building process: original", a[0][:16], "preprocessed", a[1][:16])
    print("   ", a[2])
    print("loading process : original", b[0][:16], "preprocessed", b[1][:16])
    print("   ", b[2])
    if a[:2] != b[:2]:
        print("FAIL: the signature of the preprocessed form depends on the process")
        sys.exit(1)
    print("OK")
    sys.exit(0)


if __name__ == "__main__":
    main()
