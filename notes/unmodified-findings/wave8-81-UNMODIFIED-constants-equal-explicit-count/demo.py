"""UNMODIFIED tree: two different Constants that carry the same explicit count make
Form.signature() depend on PYTHONHASHSEED (exit 1 when the defect is present)."""
import os
import subprocess
import sys

ROOT = os.path.abspath(os.getcwd())
CHILD = r'''
import sys
sys.path.insert(0, %(root)r); sys.path.insert(0, %(root)r + "/test")
import ufl
assert ufl.__file__.startswith(%(root)r), ufl.__file__
from ufl import Mesh, FunctionSpace, Coefficient, Constant, VectorConstant, triangle, dx
from utils import LagrangeElement
mesh = Mesh(LagrangeElement(triangle, 1, (2,)))
f = Coefficient(FunctionSpace(mesh, LagrangeElement(triangle, 1)))
c1 = Constant(mesh, count=3)        # explicit counts, e.g. from eval(repr(.)) of two sessions
c2 = VectorConstant(mesh, count=3)  # a different constant (other shape), same count: accepted
form = c1 * c2[0] * f * dx
print(form.signature(), [str(c.ufl_shape) for c in form.constant_numbering()])
'''
out = {}
for seed in range(8):
    env = dict(os.environ, PYTHONHASHSEED=str(seed), PYTHONPATH=ROOT)
    r = subprocess.run([sys.executable, "-c", CHILD % {"root": ROOT}], env=env, cwd=ROOT,
                       capture_output=True, text=True, timeout=50)
    if r.returncode != 0:
        # a tree that rejects the duplicate count (as it does for Coefficients) is fine
        print("child raised (duplicate count rejected?):", r.stderr.strip().splitlines()[-1])
        sys.exit(0)
    out[seed] = r.stdout.strip()
if len({v.split()[0] for v in out.values()}) != 1:
    print("FAIL: same program, different signatures under different PYTHONHASHSEED:")
    for seed, v in out.items():
        print("  seed", seed, v[:16], "... numbering order of constants (shapes):", v.split(" ", 1)[1])
    sys.exit(1)
print("ok")
sys.exit(0)
