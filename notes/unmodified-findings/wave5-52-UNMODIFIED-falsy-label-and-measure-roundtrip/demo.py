"""UNMODIFIED tree: (1) a function space label that is falsy but not "" is dropped by repr;
(2) a Measure with metadata does not round-trip to an equal Measure; (3) FixedIndex(True)
poisons the repr of the FixedIndex(1) flyweight for the rest of the process.

Exit 1 = violations found.
Run as:  cd <tree> && PYTHONPATH=<tree> python out/UNMODIFIED-falsy-label-and-measure-roundtrip/demo.py
"""

import os
import pickle
import subprocess
import sys

ROOT = os.getcwd()
sys.path.insert(0, os.path.join(ROOT, "test"))
sys.path.insert(0, ROOT)

import ufl
import ufl.classes
import utils
from ufl import H1, Coefficient, FunctionSpace, Measure, Mesh, identity_pullback, triangle
from utils import FiniteElement

print("ufl from", ufl.__file__)
NS = dict(vars(ufl.classes))
NS.update(vars(ufl))
NS["utils"] = utils
problems = []


def check(cond, msg):
    if not cond:
        problems.append(msg)
        print("VIOLATION:", msg)


mesh = Mesh(FiniteElement("Lagrange", triangle, 1, (2,), identity_pullback, H1), ufl_id=0)
P1 = FiniteElement("Lagrange", triangle, 1, (), identity_pullback, H1)

# --- 1. label=None (or 0, (), False): part of the hash data, not printed
V_none = FunctionSpace(mesh, P1, label=None)
V_dflt = FunctionSpace(mesh, P1)
check(V_none == V_dflt or repr(V_none) != repr(V_dflt),
      "FunctionSpace(label=None) != FunctionSpace() but the reprs are identical")
c_none = Coefficient(V_none, count=5)
c_dflt = Coefficient(V_dflt, count=5)
check(c_none == c_dflt or repr(c_none) != repr(c_dflt),
      "Coefficients on them: not ==, identical repr (and therefore identical hash)")
check(eval(repr(c_none), NS) == c_none, "eval(repr(coefficient)) != coefficient")
check(pickle.loads(pickle.dumps(c_none)) == c_none, "(pickle is fine)")

# --- 2. Measure: metadata values are compared and hashed by id()
m = Measure("dx", domain=mesh, metadata={"quadrature_rule": "vertex", "quadrature_degree": 1000})
check(pickle.loads(pickle.dumps(m)) == m, "pickle copy of a Measure with metadata is not == to it")
check(eval(repr(m), NS) == m, "eval(repr(Measure with metadata)) is not == to it")

# --- 3. FixedIndex(True) first: the flyweight for 1 is created with value True
code = (
    "import sys; sys.path[:0] = [%r, %r]\n"
    "from ufl import *; from utils import FiniteElement\n"
    "m = Mesh(FiniteElement('Lagrange', triangle, 1, (2,), identity_pullback, H1), ufl_id=0)\n"
    "u = Coefficient(FunctionSpace(m, FiniteElement('Lagrange', triangle, 1, (2,), "
    "identity_pullback, H1)), count=0)\n"
    "if len(sys.argv) > 1: u[True]\n"
    "print(repr(u[1]))\n"
) % (ROOT, os.path.join(ROOT, "test"))
env = dict(os.environ, PYTHONPATH=ROOT)
outs = [
    subprocess.run([sys.executable, "-c", code, *extra], capture_output=True, text=True, cwd=ROOT,
                   env=env, check=True).stdout
    for extra in ([], ["poison"])
]
check(outs[0] == outs[1],
      "repr(u[1]) depends on whether u[True] was evaluated before: ..." + outs[1].strip()[-40:])

if problems:
    print(f"{len(problems)} violation(s)")
    sys.exit(1)
print("OK")
sys.exit(0)
