"""UNMODIFIED tree: MultiIndex.__new__ interns a fixed multi-index BEFORE initialising it.

If the first construction of MultiIndex((FixedIndex(7),)) is cut short
(KeyboardInterrupt / MemoryError inside _init), the flyweight table keeps a
half-built object and every later f[7] in the process is unusable.
Exits 1 when the defect is present.
"""
import sys

sys.path.insert(0, "/tmp/seed_82")
sys.path.insert(0, "/tmp/seed_82/test")
from utils import LagrangeElement

from ufl import Coefficient, FunctionSpace, Mesh, triangle
from ufl.classes import FixedIndex, MultiIndex

mesh = Mesh(LagrangeElement(triangle, 1, (8,)))
f = Coefficient(FunctionSpace(mesh, LagrangeElement(triangle, 1, (8,))))


def tracer(frame, event, arg):
    """Deliver a KeyboardInterrupt at the first line of MultiIndex._init (fault injection)."""
    if frame.f_code is MultiIndex._init.__code__:

        def local(frame, event, arg):
            if event == "line":
                sys.settrace(None)
                raise KeyboardInterrupt
            return local

        return local
    return None


sys.settrace(tracer)
try:
    f[7]  # the user hits Ctrl-C while this expression is being built
except KeyboardInterrupt:
    pass
finally:
    sys.settrace(None)

# later, valid work in the same process
try:
    a, b = f[7], f[7]
    ok = (a == b) and hash(a) == hash(b) and repr(a) == repr(b)
    m = MultiIndex((FixedIndex(7),))
    ok = ok and eval(repr(m)) == m
except Exception as e:  # noqa: BLE001
    print("C13 violated on a valid expression after an interrupted construction:")
    print("  f[7] ->", repr(e))
    print("  MultiIndex._cache[(7,)] holds a half-initialised object")
    sys.exit(1)
if not ok:
    print("C13 violated: f[7] inconsistent")
    sys.exit(1)
print("ok")
