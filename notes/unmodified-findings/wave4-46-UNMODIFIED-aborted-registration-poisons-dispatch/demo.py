"""UNMODIFIED tree: a registration that is aborted by an exception poisons the type registry.

@ufl_type appends to the global registry BEFORE it runs its checks, and never rolls back.
Exit 1 = C20 violated (this happens on the unmodified tree), exit 0 = fine.
"""

import os
import sys

sys.path.insert(0, os.getcwd())
sys.path.insert(0, os.path.join(os.getcwd(), "test"))

import ufl
from ufl import Coefficient, FunctionSpace, Mesh, triangle
from ufl.algorithms.transformer import ReuseTransformer
from ufl.core.expr import Expr
from ufl.core.operator import Operator
from ufl.core.ufl_type import ufl_type
from ufl.corealg.map_dag import map_expr_dag
from ufl.corealg.multifunction import MultiFunction
from utils import LagrangeElement

print("using", ufl.__file__)
mesh = Mesh(LagrangeElement(triangle, 1, (2,)))
f = Coefficient(FunctionSpace(mesh, LagrangeElement(triangle, 1)))
problems = []


class Reuse(MultiFunction):
    expr = MultiFunction.reuse_if_untouched


def body():
    def __init__(self, a):
        Operator.__init__(self, (a,))

    return {"__slots__": (), "__init__": __init__}


deco = ufl_type(num_ops=1, inherit_shape_from_operand=0, inherit_indices_from_operand=0)

# Everything is fine to begin with
map_expr_dag(Reuse(), f + 1)
ReuseTransformer().visit(f + 1)

# (1) A type is (by mistake) decorated twice. The second decoration is rejected with an
#     AssertionError - but only after the class was appended to the registry a second time.
Twice = deco(type(Operator)("DemoTwice", (Operator,), body()))
try:
    deco(Twice)
    print("second decoration accepted")
except AssertionError:
    print("second decoration of DemoTwice rejected with AssertionError (aborted registration)")
print("registry size", len(Expr._ufl_all_classes_), "typecode of DemoTwice", Twice._ufl_typecode_)

# Now NO algorithm can be instantiated any more in this process, for any type, old or new:
for label, make_and_run in [
    ("MultiFunction on old types", lambda: map_expr_dag(Reuse(), f + 1)),
    ("Transformer on old types", lambda: ReuseTransformer().visit(f + 1)),
    ("ufl.replace", lambda: ufl.replace(f + 1, {f: 2 * f})),
]:
    try:
        make_and_run()
        print("ok  ", label)
    except Exception as exc:
        problems.append(f"{label}: {type(exc).__name__}: {exc}")

# (2) Independently: after ANY aborted registration whose name is later reused (the natural
#     "fix the class and run the cell again" workflow) no Expr type can be registered any more.
try:
    deco(type(Operator)("DemoFresh", (Operator,), body()))
    print("ok   registering another, unrelated, type")
except AssertionError:
    problems.append("registering an unrelated new type DemoFresh: AssertionError (registry locked)")

if problems:
    print("C20 VIOLATED after an aborted registration:")
    for p in problems:
        print("  -", p)
    sys.exit(1)
sys.exit(0)
