"""Unmodified tree: a Measure with metadata does not survive pickle / eval(repr(.))."""

import os
import pickle
import sys

sys.path.insert(0, os.getcwd())
sys.path.insert(0, os.path.join(os.getcwd(), "test"))

import ufl
from ufl import Measure, ds, dx

print("ufl imported from", ufl.__file__)

failures = []
q = int("1000")  # any int > 256 that is not a literal of this module
for name, m in [
    ("dx(degree=1000)", dx(degree=q)),
    ("ds(scheme='vertex')", ds(scheme="".join(["ver", "tex"]))),
    ("dx(1, metadata={'tol': 1e-8})", dx(1, metadata={"tol": float("1e-8")})),
]:
    for how, back in [
        ("pickle", pickle.loads(pickle.dumps(m))),
        ("eval(repr(.))", eval(repr(m), {"Measure": Measure})),
    ]:
        if repr(back) != repr(m):
            failures.append(f"{name}: {how} changes the repr")
        if not (back == m):
            failures.append(f"{name}: {how} gives a measure that is != the original")
# and the same measure written down twice
a, b = dx(degree=int("1000")), dx(degree=int("1000"))
if not (a == b):
    failures.append("dx(degree=1000) != dx(degree=1000) (identical reprs: %s)" % (repr(a) == repr(b)))

if failures:
    print("C13 VIOLATED on this tree:")
    for line in failures:
        print("  -", line)
    sys.exit(1)
print("ok")
sys.exit(0)
