"""UNMODIFIED tree: a pickled MultiFunction carries a typecode-indexed (positional) handler table.

Process 1 registers the downstream types LateInner, LateOuter (in this order), creates the
real algorithm object LowerCompoundAlgebra and pickles it.  Process 2 registers the same
two types in the opposite order (e.g. two plug-ins imported in another order), unpickles
the algorithm object and applies it: typecodes are per-process counters, the table inside
the pickle is indexed by the typecodes of process 1, nothing revalidates it (only its
length is compared), and LateInner is dispatched to the ``outer`` rule.
Exit 1 if the unpickled algorithm lowers LateInner(f, g) differently from a fresh one.
"""

import subprocess
import sys

ROOT = "/tmp/seed_53"

COMMON = r"""
import pickle, sys
sys.path.insert(0, ROOT); sys.path.insert(0, ROOT + "/test")
import ufl
from ufl import Coefficient, FunctionSpace, Mesh, triangle
from ufl.algorithms.apply_algebra_lowering import LowerCompoundAlgebra
from ufl.algorithms.renumbering import renumber_indices
from ufl.classes import Inner, Outer
from ufl.core.ufl_type import ufl_type
from ufl.corealg.map_dag import map_expr_dag
from utils import LagrangeElement
assert ufl.__file__.startswith(ROOT)

def reg_inner():
    @ufl_type(num_ops=2)
    class LateInner(Inner):
        __slots__ = ()
    return LateInner

def reg_outer():
    @ufl_type(num_ops=2)
    class LateOuter(Outer):
        __slots__ = ()
    return LateOuter
""".replace("ROOT", repr(ROOT))

WRITER = COMMON + r"""
LateInner = reg_inner(); LateOuter = reg_outer()
sys.stdout.buffer.write(pickle.dumps(LowerCompoundAlgebra()))
"""

READER = COMMON + r"""
LateOuter = reg_outer(); LateInner = reg_inner()
alg = pickle.loads(sys.stdin.buffer.read())
mesh = Mesh(LagrangeElement(triangle, 1, (2,)))
V = FunctionSpace(mesh, LagrangeElement(triangle, 1, (2,)))
f = Coefficient(V, count=1); g = Coefficient(V, count=2)
e = LateInner(f, g)
def show(r):
    try:
        r = renumber_indices(r)
    except Exception:
        pass
    return f"{str(r)!r} shape={r.ufl_shape}"
try:
    got = show(map_expr_dag(alg, e))
except Exception as ex:
    got = f"raised {type(ex).__name__}: {ex}"
want = show(map_expr_dag(LowerCompoundAlgebra(), e))
print("unpickled:", got)
print("fresh    :", want)
sys.exit(0 if got == want else 1)
"""

w = subprocess.run([sys.executable, "-c", WRITER], capture_output=True, cwd=ROOT, timeout=50)
if w.returncode != 0:
    print("writer failed:", w.stderr.decode())
    sys.exit(2)
r = subprocess.run([sys.executable, "-c", READER], input=w.stdout, capture_output=True,
                   cwd=ROOT, timeout=50)
print(r.stdout.decode(), r.stderr.decode()[-2000:])
if r.returncode == 1:
    print("FAIL: the unpickled algorithm dispatched LateInner with the table of another process")
    sys.exit(1)
sys.exit(r.returncode)
