import sys, warnings, copy, glob
warnings.simplefilter("ignore")
sys.path.insert(0, "/repo/test")
import ufl
from ufl import *
from ufl.algorithms import *
from ufl.algorithms import load_ufl_file, compute_form_data, expand_derivatives, expand_indices, renumbering, estimate_total_polynomial_degree
from ufl.algorithms.apply_integral_scaling import apply_integral_scaling
from ufl.algorithms.apply_function_pullbacks import apply_function_pullbacks
from ufl.algorithms.apply_geometry_lowering import apply_geometry_lowering
from ufl.algorithms.apply_algebra_lowering import apply_algebra_lowering
from ufl.algorithms.apply_derivatives import apply_derivatives
from ufl.algorithms.apply_restrictions import apply_restrictions

def snap(form):
    return (repr(form), hash(form), form.signature(), tuple(map(repr, form.arguments())), tuple(map(repr, form.coefficients())),
            tuple(copy.deepcopy(i.metadata()) for i in form.integrals()), tuple(id(i.metadata()) for i in form.integrals()))
bad = 0
for fn in sorted(glob.glob("/repo/demo/*.py")):
    data = load_ufl_file(fn)
    forms = list(data.forms)
    snaps = [snap(f) for f in forms]
    for f in forms:
        ops = [
            lambda: compute_form_data(f, do_apply_function_pullbacks=True, do_apply_integral_scaling=True, do_apply_geometry_lowering=True, do_cancel_jacobian_products=True, do_remove_component_tensors=True),
            lambda: compute_form_data(f, complex_mode=True),
            lambda: expand_derivatives(f), lambda: apply_integral_scaling(apply_derivatives(apply_algebra_lowering(f))),
            lambda: adjoint(f), lambda: action(f), lambda: lhs(f), lambda: rhs(f), lambda: system(f), lambda: -f, lambda: 2*f, lambda: f+f, lambda: f == f,
            lambda: derivative(f, f.coefficients()[0]), lambda: expand_indices(expand_derivatives(f)), lambda: replace(f, {f.coefficients()[0]: 2*f.coefficients()[0]}),
            lambda: [f2 == f for f2 in forms], lambda: str(f), lambda: sensitivity_rhs if False else None, lambda: energy_norm(f), lambda: functional(f), lambda: extract_blocks(f),
        ]
        for k, op in enumerate(ops):
            try: op()
            except BaseException as e: pass
            for g, s in zip(forms, snaps):
                s2 = snap(g)
                if s2 != s:
                    bad += 1
                    print("MUTATION", fn, "op", k, [i for i,(a,b) in enumerate(zip(s, s2)) if a != b])
                    snaps[forms.index(g)] = s2
print("bad", bad)
