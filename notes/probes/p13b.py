import sys, pickle, warnings
warnings.simplefilter("ignore")
sys.path.insert(0, "/repo/test")
import utils
from utils import *
import ufl
from ufl import *
from ufl.classes import *
from ufl.pullback import identity_pullback
from ufl.sobolevspace import H1
if len(sys.argv) > 1:
    e = pickle.load(open("/tmp/probe/t13.pkl","rb"))
    z = eval(repr(e))
    print("loaded==evalrepr:", e == z, " hash eq:", hash(e) == hash(z), " repr eq:", repr(e) == repr(z))
    f = e.ufl_operands[0]; fz = z.ufl_operands[0]
    print("terminal: ==", f == fz, "hash eq", hash(f) == hash(fz))
    print("in set:", z in {e})
else:
    cell = triangle
    dom = Mesh(FiniteElement("Lagrange", cell, 1, (2,), identity_pullback, H1))
    V = FunctionSpace(dom, FiniteElement("Lagrange", cell, 1, (), identity_pullback, H1))
    f = Coefficient(V); g = Coefficient(V)
    e = f*g + sin(f)
    hash(e)
    print("evalrepr in-proc:", eval(repr(e)) == e)
    pickle.dump(e, open("/tmp/probe/t13.pkl","wb"))
    c1 = Constant(dom, (), count=3); c2 = Constant(dom, (2,), count=3)
    print("Constant eq:", c1 == c2, "hash eq:", hash(c1) == hash(c2), "repr eq:", repr(c1) == repr(c2))
    # args order
    M = MixedFunctionSpace(V, V, V)
    vs = TestFunctions(M)
    F = (vs[0] + vs[1] + vs[2]) * dx
    print("args parts:", [a.part() for a in F.arguments()])
if len(sys.argv) > 1:
    V1 = f.ufl_function_space(); V2 = fz.ufl_function_space()
    print("count", f.count(), fz.count(), "V eq", V1 == V2, type(V1), type(V2))
    print(V1._ufl_hash_data_() == V2._ufl_hash_data_())
    print(V1._ufl_hash_data_()); print(V2._ufl_hash_data_())
    print(type(f), type(fz), isinstance(fz, Coefficient))
