import ufl, sys
from ufl import *
import sys; sys.path.insert(0,"/repo/test"); from utils import FiniteElement
from ufl.pullback import identity_pullback
from ufl.sobolevspace import H1
def build():
    cell = triangle
    dom = Mesh(FiniteElement("Lagrange", cell, 1, (2,), identity_pullback, H1))
    V = FunctionSpace(dom, FiniteElement("Lagrange", cell, 1, (), identity_pullback, H1))
    c1 = Constant(dom); c2 = Constant(dom)
    f = Coefficient(V)
    F = (c1*c2*f)*dx
    return F
def shift(n):
    dom = Mesh(FiniteElement("Lagrange", triangle, 1, (2,), identity_pullback, H1))
    for _ in range(n): Constant(dom)
s0 = build().signature()
print(s0[:16])
for n in [0, 5, 6,7,8, 90, 95,96,97, 98]:
    shift(n)
    F = build()
    print(n, F.signature()[:16], [c.count() for c in F.constants()])
