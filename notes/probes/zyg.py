import os, sys, struct, json, warnings
warnings.simplefilter("ignore")
sys.path.insert(0, "/repo"); sys.path.insert(0, "/repo/test")
import ufl, ufl.algorithms
from ufl import *
from utils import LagrangeElement
def rd():
    h = b""
    while len(h) < 4:
        c = os.read(0, 4 - len(h))
        if not c: os._exit(0)
        h += c
    n = struct.unpack("<I", h)[0]
    b = b""
    while len(b) < n:
        b += os.read(0, n - len(b))
    return json.loads(b)
def wr(o):
    b = json.dumps(o).encode()
    os.write(1, struct.pack("<I", len(b)) + b)
wr({"ready": os.getpid(), "hs": os.environ.get("PYTHONHASHSEED")})
while True:
    m = rd()
    if m["op"] == "fork":
        pid = os.fork()
        if pid == 0:
            # child: serve ops until "end"
            while True:
                m = rd()
                if m["op"] == "end":
                    wr({"bye": 1}); os._exit(0)
                elif m["op"] == "build":
                    dom = Mesh(LagrangeElement(triangle, 1, (2,)))
                    V = FunctionSpace(dom, LagrangeElement(triangle, 2))
                    u = Coefficient(V); v = TestFunction(V)
                    F = inner(grad(u), grad(v))*dx + u**3*v*dx
                    wr({"sig": F.signature()[:12], "cnt": u.count(), "h": hash(u) & 0xffff})
        else:
            os.waitpid(pid, 0)
    elif m["op"] == "quit":
        os._exit(0)
