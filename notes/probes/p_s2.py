import sys, warnings
warnings.simplefilter("ignore")
sys.path.insert(0, "/repo")
from ufl.core.multiindex import MultiIndex, FixedIndex
class SimInterrupt(KeyboardInterrupt): pass
def tracer(frame, event, arg):
    if frame.f_code.co_name == "__new__" and frame.f_code.co_filename.endswith("multiindex.py"):
        def local(frame, event, arg):
            if event == "line":
                import linecache
                if "self._init(indices)" in linecache.getline(frame.f_code.co_filename, frame.f_lineno):
                    raise SimInterrupt()
            return local
        return local
key = (FixedIndex(7), FixedIndex(8))
sys.settrace(tracer)
try:
    MultiIndex(key)
except SimInterrupt:
    print("interrupted")
finally:
    sys.settrace(None)
m = MultiIndex(key)
try: print(m.indices())
except BaseException as e: print("later use:", type(e).__name__, e)
# recursion variant
import sys
def deep(n):
    if n == 0:
        return MultiIndex((FixedIndex(11), FixedIndex(12)))
    return deep(n - 1)
import inspect
for k in range(3, 12):
    sys.setrecursionlimit(len(inspect.stack(0)) + k)
    try:
        deep(k - 3); r = "ok"
    except RecursionError: r = "RecursionError"
    finally: sys.setrecursionlimit(1000)
    m = MultiIndex._cache.get((11, 12))
    print(k, r, "cached", m is not None, "torn", m is not None and not hasattr(m, "_indices"))
    if m is not None and not hasattr(m, "_indices"): break
