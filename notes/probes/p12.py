import sys, os, json, warnings
warnings.simplefilter("ignore")
sys.path.insert(0, "/repo/test")
import ufl
from ufl.algorithms import load_ufl_file, compute_form_data, expand_derivatives
from ufl.classes import Index, Coefficient, Constant, Label, Mesh
from utils import LagrangeElement
shift = int(sys.argv[1]); fn = sys.argv[2]
# history: create throwaway counted objects
m = None
for _ in range(shift):
    m = Mesh(LagrangeElement(ufl.triangle, 1, (2,)))
    V = ufl.FunctionSpace(m, LagrangeElement(ufl.triangle, 1))
    Index(); Coefficient(V); Constant(m); Label()
data = load_ufl_file(fn)
out = []
for form in data.forms:
    rec = {}
    try: rec["sig"] = form.signature()[:12]
    except Exception as e: rec["sig"] = "EXC " + type(e).__name__
    try: rec["exp"] = expand_derivatives(form).signature()[:12]
    except Exception as e: rec["exp"] = "EXC " + type(e).__name__
    try:
        fd = compute_form_data(form, do_apply_function_pullbacks=True, do_apply_integral_scaling=True, do_apply_geometry_lowering=True, do_apply_restrictions=True, do_estimate_degrees=True, complex_mode=False)
        rec["fd"] = fd.preprocessed_form.signature()[:12]
    except Exception as e: rec["fd"] = "EXC " + type(e).__name__
    out.append(rec)
print(json.dumps(out))
