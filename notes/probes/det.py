import sys, json, hashlib
sys.path.insert(0, "/tmp/probe")
src = open("/tmp/probe/g12.py").read().split("import time")[0]
exec(src)
from ufl.corealg.traversal import unique_pre_traversal
h = hashlib.sha256()
for seed in range(120):
    setctrs(0); g = Gen(seed); g.env(); F = g.form(g.r.choice([0,1,2]))
    if F is None: continue
    rec = [hash(F), F.signature(), [hash(n) for itg in F.integrals() for n in unique_pre_traversal(itg.integrand())]]
    # set iteration order over expressions
    s = set(n for itg in F.integrals() for n in unique_pre_traversal(itg.integrand()))
    rec.append([repr(x)[:30] for x in s])
    h.update(json.dumps(rec).encode())
print(h.hexdigest())
