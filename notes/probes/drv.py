import subprocess, struct, json, os, time
def start(hs):
    env = dict(os.environ, PYTHONHASHSEED=str(hs))
    p = subprocess.Popen(["setarch", "-R", "/venv/bin/python", "/tmp/probe/zyg.py"], stdin=subprocess.PIPE, stdout=subprocess.PIPE, env=env, bufsize=0)
    return p
def wr(p, o):
    b = json.dumps(o).encode(); p.stdin.write(struct.pack("<I", len(b)) + b)
def rd(p):
    h = p.stdout.read(4); n = struct.unpack("<I", h)[0]; return json.loads(p.stdout.read(n))
zs = [start(h) for h in (0, 1, 2)]
for z in zs: print(rd(z))
t = time.time(); N = 300
for i in range(N):
    for z in zs:
        wr(z, {"op": "fork"}); wr(z, {"op": "build"}); r = rd(z); wr(z, {"op": "build"}); r2 = rd(z); wr(z, {"op": "end"}); rd(z)
    if i == 0: print(r, r2)
dt = time.time() - t
print("runs/s (3 nodes, 2 builds each):", N / dt)
for z in zs: wr(z, {"op": "quit"})
