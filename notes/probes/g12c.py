import sys, json
sys.path.insert(0, "/tmp/probe")
src = open("/tmp/probe/g12.py").read().split("import time")[0]
exec(src)
N = int(sys.argv[1])
for seed in range(N):
    setctrs(0); a, g = build(seed)
    print(seed, json.dumps(a, sort_keys=True))
