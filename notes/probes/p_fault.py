import sys, warnings
warnings.simplefilter("ignore")
sys.path.insert(0, "/repo/test")
import ufl
from ufl import *
from ufl.algorithms import compute_form_data, expand_derivatives
from utils import LagrangeElement

class SimInterrupt(KeyboardInterrupt): pass

def run_with_fault(fn, n):
    """Raise SimInterrupt at the n-th 'line' event inside ufl code."""
    cnt = [0]
    fired = [None]
    def tracer(frame, event, arg):
        if not frame.f_code.co_filename.startswith("/repo/ufl"):
            return None
        def local(frame, event, arg):
            if event == "line":
                cnt[0] += 1
                if cnt[0] == n:
                    fired[0] = (frame.f_code.co_filename.rsplit("/",1)[-1], frame.f_lineno)
                    raise SimInterrupt()
            return local
        return local
    sys.settrace(tracer)
    try:
        r = fn()
        return ("ok", cnt[0], r)
    except SimInterrupt:
        return ("fault", fired[0], None)
    finally:
        sys.settrace(None)

cell = triangle
dom = Mesh(LagrangeElement(cell, 1, (2,)))
V = FunctionSpace(dom, LagrangeElement(cell, 2))
u = Coefficient(V); v = TestFunction(V); du = TrialFunction(V)
F = inner(grad(u), grad(v))*dx + u**3*v*dx(1, metadata={"quadrature_degree": 3})
J = derivative(F, u, du)
import time
t=time.time(); r = run_with_fault(lambda: compute_form_data(J, do_apply_function_pullbacks=True, do_apply_geometry_lowering=True, do_apply_integral_scaling=True).preprocessed_form.signature()[:10], 10**9); print(r, time.time()-t)
total = r[1]
t=time.time(); s0 = compute_form_data(J, do_apply_function_pullbacks=True, do_apply_geometry_lowering=True, do_apply_integral_scaling=True).preprocessed_form.signature()[:10]; print("untraced", s0, time.time()-t)
import random
rng = random.Random(1)
for _ in range(8):
    n = rng.randrange(1, total)
    r = run_with_fault(lambda: compute_form_data(J, do_apply_function_pullbacks=True, do_apply_geometry_lowering=True, do_apply_integral_scaling=True), n)
    # after fault: retry fault-free
    s = compute_form_data(J, do_apply_function_pullbacks=True, do_apply_geometry_lowering=True, do_apply_integral_scaling=True).preprocessed_form.signature()[:10]
    print(n, r[:2], "retry", s, s == s0)
# recursion squeeze
import inspect
def depth():
    return len(inspect.stack(0))
for k in [5, 10, 20, 40, 80]:
    old = sys.getrecursionlimit()
    d = depth()
    sys.setrecursionlimit(d + k)
    try:
        compute_form_data(J, do_apply_function_pullbacks=True); res = "ok"
    except RecursionError as e:
        res = "RecursionError"
    finally:
        sys.setrecursionlimit(old)
    print("k", k, res)
