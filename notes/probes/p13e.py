import sys, warnings
warnings.simplefilter("ignore")
sys.path.insert(0, "/tmp/probe")
from gen import *
P = lambda k, sh=(): Elem("Lagrange", triangle, k, sh, identity_pullback, H1)
m = Mesh(P(1, (2,))); V = FunctionSpace(m, P(1)); f = Coefficient(V)
a = f * dx(domain=m, metadata={"quadrature_degree": 2, "quadrature_rule": "default"})
b = f * dx(domain=m, metadata={"quadrature_rule": "default", "quadrature_degree": 2})
print("equals", a.equals(b), "hash eq", hash(a) == hash(b), "repr eq", repr(a) == repr(b), "sig eq", a.signature() == b.signature())
