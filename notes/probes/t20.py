import ufl
from ufl.corealg.multifunction import MultiFunction
from ufl.algorithms.transformer import Transformer, ReuseTransformer
from ufl.core.ufl_type import ufl_type
from ufl.core.operator import Operator
from ufl.core.expr import Expr

class MF(MultiFunction):
    def __init__(self): MultiFunction.__init__(self)
    expr = lambda self, o: "expr"
    def terminal(self, o): return "terminal"

m1 = MF()
t1 = ReuseTransformer()
@ufl_type(num_ops=1, inherit_shape_from_operand=0, inherit_indices_from_operand=0)
class Foo(Operator):
    __slots__ = ()
    def __init__(self, a): Operator.__init__(self, (a,))
    def __str__(self): return "Foo(%s)" % self.ufl_operands[0]

x = ufl.SpatialCoordinate(ufl.triangle)[0] if False else ufl.constantvalue.FloatValue(2.0)
f = Foo(x)
print("typecode", f._ufl_typecode_, len(Expr._ufl_all_classes_))
for name, fn in [("mf-old", lambda: m1(f)), ("mf-new", lambda: MF()(f)), ("tr-old", lambda: t1.visit(f)), ("tr-new", lambda: ReuseTransformer().visit(f))]:
    try: print(name, fn())
    except Exception as e: print(name, "EXC", type(e).__name__, e)
