"""Throw-away prototype: random typed UFL program generator (in-process)."""
import sys, random, warnings, itertools
warnings.simplefilter("ignore")
sys.path.insert(0, "/repo")
import ufl
from ufl import *
from ufl.classes import *
from ufl.finiteelement import AbstractFiniteElement
from ufl.pullback import identity_pullback, contravariant_piola, covariant_piola, MixedPullback, IdentityPullback
from ufl.sobolevspace import H1, HDiv, HCurl, L2

class Elem(AbstractFiniteElement):
    def __init__(self, family, cell, degree, rshape, pullback, sob, subs=()):
        self.family, self._cell, self.degree, self.rshape, self._pb, self._sob, self._subs = family, cell, degree, rshape, pullback, sob, list(subs)
    def __repr__(self): return f"Elem({self.family!r}, {self._cell!r}, {self.degree}, {self.rshape}, {self._pb!r}, {self._sob}, {self._subs!r})"
    __str__ = __repr__
    def __hash__(self): return hash(repr(self))
    def __eq__(self, o): return type(o) is type(self) and repr(self) == repr(o)
    sobolev_space = property(lambda s: s._sob)
    pullback = property(lambda s: s._pb)
    embedded_superdegree = property(lambda s: s.degree)
    embedded_subdegree = property(lambda s: s.degree)
    cell = property(lambda s: s._cell)
    reference_value_shape = property(lambda s: s.rshape)
    sub_elements = property(lambda s: s._subs)

class MixedElem(Elem):
    def __init__(self, subs):
        subs = list(subs)
        pb = IdentityPullback() if all(isinstance(e.pullback, IdentityPullback) for e in subs) else None
        Elem.__init__(self, "Mixed", subs[0].cell, max(e.degree for e in subs), (sum(e.reference_value_size for e in subs),), pb, max(e.sobolev_space for e in subs), subs)
        if pb is None: self._pb = MixedPullback(self)
    def __repr__(self): return f"MixedElem({self._subs!r})"

CELLS = [(interval, 1), (triangle, 2), (tetrahedron, 3)]

class Gen:
    def __init__(self, seed):
        self.r = random.Random(seed)
        self.stats = {"ok": 0, "fail": 0}
    def env(self):
        r = self.r
        cell, d = r.choice(CELLS)
        gdim = d if r.random() < 0.8 or d == 3 else d + 1
        self.cell, self.d, self.gdim = cell, d, gdim
        self.mesh = Mesh(Elem("Lagrange", cell, r.choice([1, 1, 2]), (gdim,), identity_pullback, H1))
        P = lambda k, sh=(): Elem("Lagrange", cell, k, sh, identity_pullback, H1)
        els = [P(1), P(2), P(1, (gdim,)), P(2, (gdim,)), P(1, (gdim, gdim))]
        if d > 1:
            els.append(Elem("RT", cell, 1, (d,), contravariant_piola, HDiv))
            els.append(Elem("N1curl", cell, 1, (d,), covariant_piola, HCurl))
        els.append(MixedElem([P(2, (gdim,)), P(1)]))
        self.spaces = [FunctionSpace(self.mesh, e) for e in els]
        self.terms = []
        nco = r.randint(1, 4)
        for _ in range(nco):
            self.terms.append(Coefficient(r.choice(self.spaces)))
        for _ in range(r.randint(0, 4)):
            self.terms.append(Constant(self.mesh, r.choice([(), (), (gdim,), (gdim, gdim)])))
        self.terms.append(SpatialCoordinate(self.mesh))
        if r.random() < 0.5: self.terms.append(FacetNormal(self.mesh))
        if r.random() < 0.3: self.terms.append(CellVolume(self.mesh))
        self.V = r.choice(self.spaces)
        self.v = TestFunction(self.V); self.u = TrialFunction(self.V)
    def lit(self):
        r = self.r
        return r.choice([0, 1, 2, -1, 3, 0.5, 2.0, -1.5, 10, 1e-3])
    def scalar(self, depth):
        """Return a scalar-valued index-free expr."""
        r = self.r
        e = self.expr(depth)
        for _ in range(4):
            sh = e.ufl_shape
            if e.ufl_free_indices:
                return None
            if sh == (): return e
            k = r.random()
            if len(sh) == 1:
                e = e[r.randrange(sh[0])] if k < 0.5 else dot(e, e)
            elif len(sh) == 2:
                e = r.choice([lambda: tr(e) if sh[0] == sh[1] else e[0, 0], lambda: inner(e, e), lambda: e[r.randrange(sh[0]), r.randrange(sh[1])], lambda: det(e) if sh[0] == sh[1] and sh[0] <= 3 else e[0, 0]])()
            else:
                e = e[(0,) * len(sh)]
        return e if e.ufl_shape == () else None
    def expr(self, depth):
        r = self.r
        if depth <= 0 or r.random() < 0.15:
            k = r.random()
            if k < 0.15: return as_ufl(self.lit())
            return r.choice(self.terms)
        try:
            e = as_ufl(self._op(depth))
            self.stats["ok"] += 1
            return e
        except BaseException as ex:
            self.stats["fail"] += 1
            self.stats.setdefault("exc", {}).setdefault(type(ex).__name__, 0)
            self.stats["exc"][type(ex).__name__] += 1
            return r.choice(self.terms)
    def _op(self, depth):
        r = self.r
        a = self.expr(depth - 1)
        k = r.randrange(24)
        if k >= 22:
            # flat commutative family: product/sum of bare scalar terminals
            ts = [t for t in self.terms if t.ufl_shape == ()]
            if len(ts) >= 2:
                picks = [r.choice(ts) for _ in range(r.randint(2, 4))]
                e = picks[0]
                for p in picks[1:]:
                    e = e * p if r.random() < 0.6 else e + p
                return e
            return a
        if k == 0:
            b = self.expr(depth - 1)
            return a + b if a.ufl_shape == b.ufl_shape else a + a
        if k == 1:
            s = self.scalar(depth - 1)
            return (s if s is not None else 2) * a
        if k == 2:
            s = self.scalar(depth - 1)
            return a / (s if s is not None else 2)
        if k == 3: return -a
        if k == 4:
            s = self.scalar(depth - 1)
            return (s if s is not None else a) ** r.choice([2, 3, 0.5, -1])
        if k == 5:
            s = self.scalar(depth - 1)
            return r.choice([sin, cos, exp, sqrt, ln, abs, tanh])(s if s is not None else as_ufl(1.0))
        if k == 6: return grad(a)
        if k == 7: return div(a) if len(a.ufl_shape) >= 1 else grad(a)
        if k == 8:
            b = self.expr(depth - 1)
            return inner(a, b) if a.ufl_shape == b.ufl_shape else inner(a, a)
        if k == 9:
            b = self.expr(depth - 1)
            return dot(a, b)
        if k == 10:
            b = self.expr(depth - 1)
            return outer(a, b)
        if k == 11:
            sh = a.ufl_shape
            if not sh: return a
            return a[tuple(r.randrange(n) for n in sh)]
        if k == 12:
            sh = a.ufl_shape
            if len(sh) == 2:
                i, j = indices(2)
                return as_tensor(a[i, j], (j, i))
            if len(sh) == 1:
                i = Index()
                return as_tensor(2 * a[i], (i,))
            return a
        if k == 13:
            sh = a.ufl_shape
            if len(sh) == 2 and sh[0] == sh[1]:
                return r.choice([tr, dev, sym, skew, transpose, det, inv] if sh[0] <= 3 else [tr, sym, transpose])(a)
            return a
        if k == 14:
            s1 = self.scalar(depth - 1); s2 = self.scalar(depth - 1)
            b = self.expr(depth - 1)
            if s1 is None or s2 is None or b.ufl_shape != a.ufl_shape: return a
            return conditional(r.choice([lt, gt, le, ge])(s1, s2), a, b)
        if k == 15:
            va = variable(a)
            s = self.scalar(0)
            f = va * 2 if True else va
            return diff(inner(va, va) if va.ufl_shape else va ** 2, va)
        if k == 16:
            n = r.randint(1, 3)
            comps = [self.scalar(depth - 1) for _ in range(n)]
            if any(c is None for c in comps): return a
            return as_vector(comps)
        if k == 17:
            sh = a.ufl_shape
            if len(sh) >= 1:
                i = Index()
                b = self.expr(depth - 1)
                if b.ufl_shape and b.ufl_shape[0] == sh[0]:
                    return a[(i,) + (0,) * (len(sh) - 1)] * b[(i,) + (0,) * (len(b.ufl_shape) - 1)]
            return a
        if k == 18: return a.dx(r.randrange(self.gdim)) if True else a
        if k == 19:
            if len(a.ufl_shape) == 1 and a.ufl_shape[0] == 3:
                b = self.expr(depth - 1)
                if b.ufl_shape == (3,): return cross(a, b)
                return curl(a)
            return a
        if k == 20:
            b = self.expr(depth - 1)
            return a - b if a.ufl_shape == b.ufl_shape else a
        if k == 21:
            return max_value(self.scalar(depth-1) or 1, self.scalar(depth-1) or 2)
        return a
    def measure(self):
        r = self.r
        kind = r.choice(["dx", "dx", "dx", "ds", "dS"])
        sid = r.choice(["everywhere", "everywhere", 1, 2, (1, 2)])
        md = r.choice([None, None, {"quadrature_degree": r.choice([1, 2, 3])}, {"quadrature_rule": "default", "quadrature_degree": 2}])
        m = {"dx": dx, "ds": ds, "dS": dS}[kind]
        kw = {}
        if md is not None: kw["metadata"] = md
        if sid != "everywhere": kw["subdomain_id"] = sid
        kw["domain"] = self.mesh
        return kind, m(**kw)
    def form(self, rank, depth=3):
        r = self.r
        itgs = None
        for _ in range(r.randint(1, 3)):
            kind, m = self.measure()
            s = None
            for _ in range(5):
                s = self.scalar(depth)
                if s is not None: break
            if s is None: s = as_ufl(1.0)
            if rank >= 1:
                v = self.v
                s = inner(s * v, v) if False else (s * (v if v.ufl_shape == () else dot(v, v) if False else v[(0,) * len(v.ufl_shape)]))
            if rank == 2:
                u = self.u
                s = s * (u if u.ufl_shape == () else u[(0,) * len(u.ufl_shape)])
            if kind == "dS":
                s = s("+")
            try:
                f = s * m
            except BaseException as ex:
                self.stats["fail"] += 1
                continue
            itgs = f if itgs is None else itgs + f
        return itgs
