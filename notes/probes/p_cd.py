import sys, warnings
warnings.simplefilter("ignore")
sys.path.insert(0, "/repo/test")
from ufl import *
from ufl.algorithms import compute_form_data
from utils import LagrangeElement
cell = triangle
dom = Mesh(LagrangeElement(cell, 1, (2,)))
V = FunctionSpace(dom, LagrangeElement(cell, 1))
VV = FunctionSpace(dom, LagrangeElement(cell, 1, (2,)))
x = SpatialCoordinate(dom)
u = Coefficient(V); w = Coefficient(V)
v1 = Coefficient(VV); v2 = Coefficient(VV); v3 = Coefficient(VV)
F = derivative(u*u*dx, x, v1) + derivative(w*w*w*dx, x, v2) + derivative(u*w*dx, x, v3)
fd = compute_form_data(F, do_apply_function_pullbacks=True, do_apply_integral_scaling=True, do_apply_geometry_lowering=True)
print([str(i.integrand())[:40] for idt in fd.integral_data for i in idt.integrals])
print(fd.preprocessed_form.signature()[:12])
