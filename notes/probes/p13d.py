import sys, pickle, warnings, glob, itertools, random
warnings.simplefilter("ignore")
sys.path.insert(0, "/repo/test")
import ufl
from ufl.algorithms import load_ufl_file, expand_derivatives
from ufl.corealg.traversal import unique_pre_traversal
from ufl.algorithms.signature import compute_expression_signature
from ufl.classes import MultiIndex, Label
rng = random.Random(0)
viol = {}
def V(k, *a):
    viol.setdefault(k, []).append(a)
tot_pairs = 0
for fn in sorted(glob.glob("/repo/demo/*.py")):
    data = load_ufl_file(fn)
    nodes = []
    for form in data.forms:
        for F in (form,):
            for itg in F.integrals():
                nodes.extend(unique_pre_traversal(itg.integrand()))
        try:
            for itg in expand_derivatives(form).integrals():
                nodes.extend(unique_pre_traversal(itg.integrand()))
        except BaseException: pass
    nodes = nodes[:400]
    if not nodes: continue
    snaps = [(repr(n), hash(n)) for n in nodes]
    # pickled copies
    copies = []
    for n in nodes[:150]:
        try: copies.append(pickle.loads(pickle.dumps(n)))
        except BaseException as e: V("pickle-fail", fn, type(n).__name__, type(e).__name__); copies.append(None)
    for n, c in zip(nodes, copies):
        if c is None: continue
        if not (n == c): V("E7 pickle neq", fn, type(n).__name__)
        elif hash(n) != hash(c) or repr(n) != repr(c): V("E7 hash/repr", fn, type(n).__name__)
    allx = nodes + [c for c in copies if c is not None]
    for _ in range(20000):
        a, b = rng.choice(allx), rng.choice(allx)
        tot_pairs += 1
        ab = (a == b); ba = (b == a)
        if ab != ba: V("E2", fn, type(a).__name__, type(b).__name__)
        if ab:
            if hash(a) != hash(b): V("E4 hash", fn, type(a).__name__)
            if repr(a) != repr(b): V("E4 repr", fn, type(a).__name__)
        elif repr(a) == repr(b) and type(a) is type(b):
            V("repr-eq-but-neq", fn, type(a).__name__)
    for n in allx[:300]:
        if not (n == n): V("E1", fn, type(n).__name__)
    for n, s in zip(nodes, snaps):
        if (repr(n), hash(n)) != s: V("E6", fn, type(n).__name__)
print("pairs", tot_pairs)
for k, v in viol.items():
    print(k, len(v), sorted(set(map(str, v)))[:6])
