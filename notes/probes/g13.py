import sys, pickle, copy
sys.path.insert(0, "/tmp/probe")
import gen
from gen import *
from ufl.corealg.traversal import unique_pre_traversal
from ufl.algorithms import compute_form_data, expand_derivatives, expand_indices, replace, estimate_total_polynomial_degree, strip_variables
from ufl.algorithms.renumbering import renumber_indices
from ufl.algorithms.apply_algebra_lowering import apply_algebra_lowering
from ufl.algorithms.apply_derivatives import apply_derivatives
from ufl.algorithms.remove_component_tensors import remove_component_tensors
viol = {}
def Vv(k, *a): viol.setdefault(k, []).append(a)
N = int(sys.argv[1]); npairs = 0; nops = 0; nabort = 0
ns = dict(vars(ufl.classes)); ns.update(Elem=Elem, MixedElem=MixedElem); ns.update({k: getattr(ufl, k) for k in ("triangle", "interval", "tetrahedron")})
import ufl.pullback, ufl.sobolevspace
ns.update(vars(ufl.pullback)); ns.update(vars(ufl.sobolevspace))
def snap_form(f):
    return (repr(f), hash(f), f.signature(), tuple(map(repr, f.arguments())), tuple(map(repr, f.coefficients())), tuple(copy.deepcopy(i.metadata()) for i in f.integrals()))
for seed in range(N):
    g = Gen(seed); g.env(); r = g.r
    forms = [f for f in (g.form(r.choice([0, 1, 2])) for _ in range(3)) if f is not None]
    exprs = []
    for f in forms:
        for itg in f.integrals():
            exprs.extend(list(unique_pre_traversal(itg.integrand()))[:40])
    if not exprs: continue
    snaps = [(repr(e), hash(e), getattr(e, "ufl_shape", None) if not isinstance(e, (MultiIndex, Label)) else None) for e in exprs]
    fsnaps = [snap_form(f) for f in forms]
    copies = []
    for e in exprs[:60]:
        try:
            c = pickle.loads(pickle.dumps(e))
            if not (c == e) or hash(c) != hash(e) or repr(c) != repr(e): Vv("E7-pickle", seed, type(e).__name__)
            copies.append(c)
        except BaseException as ex: Vv("E7-pickle-exc", seed, type(e).__name__, type(ex).__name__)
        if isinstance(e, (MultiIndex, Label)): continue
        try:
            z = eval(repr(e), ns)
            if not (z == e): Vv("E7-evalrepr-neq", seed, type(e).__name__, repr(e)[:150])
            elif hash(z) != hash(e): Vv("E7-evalrepr-hash", seed, type(e).__name__)
            copies.append(z)
        except BaseException as ex: Vv("E7-evalrepr-exc", seed, type(e).__name__, type(ex).__name__, str(ex)[:80])
    allx = exprs + copies
    for _ in range(3000):
        a, b = r.choice(allx), r.choice(allx); npairs += 1
        ab, ba = (a == b), (b == a)
        if ab != ba: Vv("E2", seed, type(a).__name__, type(b).__name__)
        if ab and (hash(a) != hash(b) or repr(a) != repr(b)): Vv("E4", seed, type(a).__name__)
    for e in allx[:200]:
        if not (e == e): Vv("E1", seed, type(e).__name__, repr(e)[:80])
    for e, s in zip(exprs, snaps):
        s2 = (repr(e), hash(e), getattr(e, "ufl_shape", None) if not isinstance(e, (MultiIndex, Label)) else None)
        if s2 != s: Vv("E6", seed, type(e).__name__)
    # C27 battery
    for f in forms:
        co = f.coefficients()
        ops = [lambda: compute_form_data(f, do_apply_function_pullbacks=r.random() < .5, do_apply_integral_scaling=r.random() < .5, do_apply_geometry_lowering=r.random() < .5, do_cancel_jacobian_products=r.random() < .3, do_remove_component_tensors=r.random() < .3, complex_mode=r.random() < .2, do_append_everywhere_integrals=r.random() < .5),
               lambda: expand_derivatives(f), lambda: expand_indices(apply_derivatives(apply_algebra_lowering(f))), lambda: renumber_indices(f), lambda: remove_component_tensors(apply_algebra_lowering(f)),
               lambda: adjoint(f), lambda: action(f), lambda: lhs(f), lambda: rhs(f), lambda: system(f), lambda: derivative(f, co[0]) if co else None,
               lambda: expand_derivatives(derivative(derivative(f, co[0]), co[0])) if co else None, lambda: replace(f, {co[0]: 2 * co[0]}) if co else None,
               lambda: -f, lambda: 3 * f, lambda: f + forms[0], lambda: f.equals(forms[0]), lambda: str(f), lambda: pickle.loads(pickle.dumps(f)).equals(f), lambda: energy_norm(f), lambda: functional(f), lambda: strip_variables(f),
               lambda: [estimate_total_polynomial_degree(i.integrand()) for i in f.integrals()], lambda: extract_blocks(f)]
        r.shuffle(ops)
        for op in ops[:10]:
            nops += 1
            try: op()
            except BaseException: nabort += 1
            for k, (ff, s) in enumerate(zip(forms, fsnaps)):
                s2 = snap_form(ff)
                if s2 != s:
                    Vv("C27", seed, [i for i, (x, y) in enumerate(zip(s, s2)) if x != y]); fsnaps[k] = s2
print("seeds", N, "pairs", npairs, "algops", nops, "aborted", nabort)
for k, v in viol.items(): print(k, len(v), sorted(set(map(str, v)))[:5])
