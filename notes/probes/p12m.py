import sys, itertools
sys.path.insert(0, "/tmp/probe")
from gen import *
def setctrs(n):
    for cls in (Index, Coefficient, Constant, Label): cls._counter = itertools.count(n)
    Mesh._ufl_global_id = n
def build():
    P = lambda k, sh=(): Elem("Lagrange", triangle, k, sh, identity_pullback, H1)
    m1 = Mesh(P(1, (2,))); m2 = Mesh(P(1, (2,)))
    x1 = SpatialCoordinate(m1); x2 = SpatialCoordinate(m2)
    V1 = FunctionSpace(m1, P(1)); V2 = FunctionSpace(m2, P(1))
    f1 = Coefficient(V1); f2 = Coefficient(V2)
    out = {}
    for name, mk in [("vol", lambda: CellVolume(m1) * CellVolume(m2) * f1 * dx(m1)), ("x", lambda: (x1[0] * x2[0]) * dx(m1)), ("fn", lambda: (FacetArea(m1) + FacetArea(m2)) * f1 * ds(m1)), ("coef", lambda: f1 * f2 * dx(m1))]:
        try: out[name] = mk().signature()[:10]
        except BaseException as e: out[name] = "EXC " + type(e).__name__ + str(e)[:50]
    return out
for n in (0, 3, 8, 9, 98):
    setctrs(n); print(n, build())
