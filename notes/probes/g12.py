import sys, itertools
sys.path.insert(0, "/tmp/probe")
from gen import *
from ufl.algorithms import compute_form_data, expand_derivatives
def setctrs(n):
    for cls in (Index, Coefficient, Constant, Label):
        cls._counter = itertools.count(n)
    Mesh._ufl_global_id = n
def build(seed):
    g = Gen(seed); g.env()
    rank = g.r.choice([0, 1, 2])
    F = g.form(rank)
    out = {}
    if F is None: return out, g
    for name, fn in [("sig", lambda: F.signature()), ("exp", lambda: expand_derivatives(F).signature()),
                     ("fd", lambda: compute_form_data(F, do_apply_function_pullbacks=True, do_apply_geometry_lowering=True, do_apply_integral_scaling=True).preprocessed_form.signature()),
                     ("der", lambda: expand_derivatives(derivative(F, [t for t in g.terms if isinstance(t, Coefficient)][0])).signature())]:
        try: out[name] = fn()[:12]
        except BaseException as e: out[name] = "EXC:" + type(e).__name__
    return out, g
import time
t = time.time()
N = int(sys.argv[1]); bad = 0; tot = {"ok": 0, "fail": 0}; excs = {}
for seed in range(N):
    setctrs(0); a, g = build(seed)
    for k in ("ok", "fail"): tot[k] += g.stats[k]
    for k, v in g.stats.get("exc", {}).items(): excs[k] = excs.get(k, 0) + v
    for start in (8, 9, 98, 99):
        setctrs(start); b, _ = build(seed)
        if a != b:
            bad += 1
            print("DIVERGE seed", seed, "start", start, a, b)
            break
print("N", N, "bad", bad, tot, excs, "time", time.time() - t)
