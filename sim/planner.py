"""Node-side program generator (see DESIGN 2.1)."""
