"""Node-side typed program generator (DESIGN 2.1).

The planner runs inside a salt-0 node.  It *executes* every candidate op through the
ordinary op interpreter only to learn history-independent facts (does it build? which
shape / free indices / rank?) and emits the op list.  All choices come from one PRNG, so
a plan is a pure function of its seed and configuration.  The objects are thrown away.

Slots: ints handed out sequentially from ``base``.
"""

import os
import random

import ufl
from ufl.core.expr import Expr
from ufl.form import BaseForm, Form

from sim import ops as simops

CELLS = {"interval": 1, "triangle": 2, "tetrahedron": 3, "quadrilateral": 2}
GEO_SCALAR = ["CellVolume", "Circumradius", "FacetArea", "CellDiameter", "MinFacetEdgeLength", "MaxFacetEdgeLength", "MinCellEdgeLength", "MaxCellEdgeLength"]
GEO_MORE = [
    "CellCoordinate", "CellEdgeVectors", "CellFacetJacobian", "CellFacetJacobianDeterminant", "CellFacetJacobianInverse",
    "CellFacetOrigin", "CellOrientation", "CellOrigin", "CellRidgeJacobian", "CellRidgeOrigin", "CellVertices", "FacetCoordinate",
    "FacetEdgeVectors", "FacetJacobian", "FacetJacobianDeterminant", "FacetJacobianInverse", "FacetOrientation", "FacetOrigin",
    "FacetRidgeJacobian", "QuadratureWeight", "ReferenceCellEdgeVectors", "ReferenceCellVolume", "ReferenceFacetEdgeVectors",
    "ReferenceFacetVolume", "ReferenceNormal", "ReferenceRidgeVolume", "RidgeCoordinate", "RidgeJacobian", "RidgeJacobianDeterminant",
    "RidgeJacobianInverse", "RidgeOrigin", "CellNormal",
]
GEO_OTHER = ["SpatialCoordinate", "FacetNormal", "Jacobian", "JacobianDeterminant", "JacobianInverse", "CellNormal"]
MATH1 = ["sin", "cos", "exp", "sqrt", "ln", "tanh", "atan", "erf", "sinh", "cosh", "tan", "acos", "asin"]
CANONICAL_NUMBERING = (
    "sim.ops.preprocessed_form",
    "sim.ops.form_data",
    "sim.ops.fd_integrals_form",
    "sim.ops.grouped_form",
    "ufl.algorithms.strip_terminal_data",
    "ufl.algorithms.renumbering.renumber_indices",
)
CFD_FLAGS = [
    "do_apply_function_pullbacks",
    "do_apply_integral_scaling",
    "do_apply_geometry_lowering",
    "do_cancel_jacobian_products",
    "do_apply_default_restrictions",
    "do_apply_restrictions",
    "do_estimate_degrees",
    "do_append_everywhere_integrals",
    "do_replace_functions",
    "complex_mode",
    "do_remove_component_tensors",
]


class Planner:
    def __init__(self, seed, cfg, repo):
        self.rng = random.Random(seed)
        self.cfg = cfg
        self.node = simops.Node(repo)
        from sim import nodeext

        nodeext.install(self.node)
        self.ops = []
        self.next = cfg.get("base", 1)
        self.info = {}
        self.stats = {"emitted": 0, "rejected": 0}
        self.meshes = []  # dicts: slot, cell, tdim, gdim, spaces, terms ...
        self.forms = []  # (slot, rank, mesh index)
        self.derived = []
        self.exprs = []  # interesting expression slots (for pools)
        self.dicts = []
        self.fam = cfg.get("families", {})
        self.poisoned = False
        self.watch = []  # objects whose round trips are worth repeating after comparisons
        self.renumbered = set()  # forms that hold canonically renumbered coefficients
        self.must_succeed = []  # output slots of valid constructor calls that follow a rejected one

    # ---------------------------------------------------------------- emission
    def new(self):
        s = self.next
        self.next += 1
        return s

    def obj(self, slot):
        return self.node.slots[slot]

    def emit(self, op, keep_failed=False, kind=None):
        """Execute op in the planner's node; record it if it succeeds."""
        r = self.node.run(op)
        ok = "ok" in r
        # an op may corrupt its inputs (that is what the checks look for); the planner
        # must not build on a corrupted object, so generation stops after such an op
        for s_ in self.refs_of(op[2:]) + ([op[1]] if len(op) > 1 and isinstance(op[1], int) else []):
            o_ = self.node.slots.get(s_)
            if isinstance(o_, (Expr, Form)) and simops.is_cyclic(o_):
                self.poisoned = True
                ok = True  # keep the op: the nodes have to execute it
        if ok or keep_failed:
            self.ops.append(op)
            self.stats["emitted"] += 1
            out = op[1] if len(op) > 1 and isinstance(op[1], int) else None
            if ok and out is not None and out in self.node.slots and not self.poisoned:
                self.info[out] = self.describe(self.node.slots[out], kind)
        else:
            self.stats["rejected"] += 1
        return ok

    def describe(self, o, kind=None):
        d = {}
        if isinstance(o, Expr):
            d["k"] = kind or "expr"
            try:
                d["shape"] = list(o.ufl_shape)
                d["nfi"] = len(o.ufl_free_indices)
            except Exception:
                d["k"] = "exprlike"
        elif isinstance(o, Form):
            d["k"] = kind or "form"
            try:
                d["rank"] = len(o.arguments())
                d["nint"] = len(o.integrals())
            except BaseException:
                d["rank"] = -1
        elif isinstance(o, BaseForm):
            d["k"] = kind or "baseform"
        elif isinstance(o, dict):
            d["k"] = "dict"
        else:
            d["k"] = kind or type(o).__name__
        return d

    def call(self, fname, *args, kind=None, keep_failed=False, **kw):
        out = self.new()
        op = ["call", out, fname, list(args)]
        if kw:
            op.append(kw)
        if self.emit(op, keep_failed=keep_failed, kind=kind) and out in self.node.slots:
            return out
        return None

    @staticmethod
    def ref(s):
        return ["$", s]

    def lit_tuple(self, t):
        return ["t"] + list(t)

    # ---------------------------------------------------------------- environment
    def elem(self, family, cell, degree, shape, pb="identity_pullback", sob="H1"):
        return self.call(
            "sim.elements.Elem", family, ["cell", cell], degree, self.lit_tuple(shape), ["pb", pb], ["sob", sob], kind="elem"
        )

    def env(self):
        r = self.rng
        nm = self.cfg.get("n_meshes")
        if nm is None:
            nm = r.choice([1, 1, 1, 2, 2, 3])
        cell = r.choice(["interval", "triangle", "triangle", "tetrahedron", "quadrilateral"])
        tdim = CELLS[cell]
        gdim = tdim if r.random() < 0.8 or tdim == 3 else tdim + 1
        for mi in range(nm):
            if mi > 0 and r.random() < 0.25:
                cell = r.choice(["interval", "triangle", "tetrahedron"])
                tdim = CELLS[cell]
                gdim = tdim
            cdeg = r.choice([1, 1, 2])
            ce = self.elem("Lagrange", cell, cdeg, (gdim,))
            mesh = self.call("ufl.Mesh", self.ref(ce), kind="mesh")
            M = {"slot": mesh, "cell": cell, "tdim": tdim, "gdim": gdim, "spaces": [], "terms": [], "consts": [], "coefs": [], "geos": [], "args": {}}
            specs = [("P", 1, ()), ("P", 2, ()), ("P", 1, (gdim,)), ("P", 2, (gdim,)), ("P", 1, (gdim, gdim))]
            if r.random() < 0.5:
                specs.append(("DP", 0, ()))
            if tdim > 1 and tdim == gdim and cell != "quadrilateral":
                specs.append(("RT", 1, (tdim,)))
                specs.append(("N1curl", 1, (tdim,)))
            r.shuffle(specs)
            specs = specs[: r.randint(2, len(specs))]
            elems = []
            for fam, k, sh in specs:
                if fam == "P":
                    e = self.elem("Lagrange", cell, k, sh)
                elif fam == "DP":
                    e = self.elem("Discontinuous Lagrange", cell, k, sh, sob="L2")
                elif fam == "RT":
                    e = self.elem("Raviart-Thomas", cell, k, sh, pb="contravariant_piola", sob="HDiv")
                else:
                    e = self.elem("N1curl", cell, k, sh, pb="covariant_piola", sob="HCurl")
                elems.append((e, sh if fam in ("P", "DP") else (gdim,)))
            if r.random() < 0.4 and len(elems) >= 2:
                a, b = r.sample(elems, 2)
                me = self.call("sim.elements.MixedElem", [self.ref(a[0]), self.ref(b[0])], kind="elem")
                if me is not None:
                    elems.append((me, None))
            if r.random() < 0.2 and gdim == 2:
                p1 = self.elem("Lagrange", cell, 1, ())
                sym = ["d", [[["t", 0, 0], 0], [["t", 0, 1], 1], [["t", 1, 0], 1], [["t", 1, 1], 2]]]
                se = self.call("sim.elements.SymElem", sym, [self.ref(p1), self.ref(p1), self.ref(p1)], kind="elem")
                if se is not None:
                    elems.append((se, None))
            for e, _ in elems:
                kwl = {"label": r.choice(["a", "b", "bnd"])} if r.random() < self.cfg.get("label_p", 0.12) else {}
                sp = self.call("ufl.FunctionSpace", self.ref(mesh), self.ref(e), kind="space", **kwl)
                if sp is not None:
                    M["spaces"].append(sp)
            self.meshes.append(M)
        for M in self.meshes:
            self.terminals(M)

    def terminals(self, M):
        r = self.rng
        nco = self.cfg.get("n_coef") or r.randint(1, 4)
        for _ in range(nco):
            # now and then an instance of a downstream subclass (shares the counter of its base)
            cname = "sim.userclasses.Function" if r.random() < self.cfg.get("userclass_p", 0.12) else "ufl.Coefficient"
            c = self.call(cname, self.ref(r.choice(M["spaces"])), kind="coef")
            if c is not None:
                M["coefs"].append(c)
                M["terms"].append(c)
        ncs = self.cfg.get("n_const")
        if ncs is None:
            ncs = r.randint(0, 4)
        g = M["gdim"]
        for _ in range(ncs):
            sh = r.choice([(), (), (), (g,), (g, g)])
            c = self.call("sim.userclasses.Parameter" if r.random() < self.cfg.get("userclass_p", 0.12) else "ufl.Constant", self.ref(M["slot"]), self.lit_tuple(sh), kind="const")
            if c is not None:
                M["consts"].append(c)
                M["terms"].append(c)
        x = self.call("ufl.SpatialCoordinate", self.ref(M["slot"]), kind="geo")
        M["x"] = x
        M["terms"].append(x)
        M["geos"].append(x)
        if self.cfg.get("mirror_geo") and self.meshes and self.meshes[0] is not M and self.meshes[0].get("geo_names") is not None:
            names = list(self.meshes[0]["geo_names"])  # the same quantities on every mesh
        else:
            names = r.sample(GEO_SCALAR, r.randint(0, 3) if not self.cfg.get("mirror_geo") else r.randint(1, 3))
        M["geo_names"] = names
        for name in names:
            gq = self.call("ufl." + name, self.ref(M["slot"]), kind="geo")
            if gq is not None:
                M["terms"].append(gq)
                M["geos"].append(gq)
        if r.random() < 0.5:
            n = self.call("ufl.FacetNormal", self.ref(M["slot"]), kind="geo")
            if n is not None:
                M["terms"].append(n)
                M["geos"].append(n)
        if r.random() < 0.15:
            gq = self.call("ufl." + r.choice(["Jacobian", "JacobianDeterminant", "JacobianInverse"]), self.ref(M["slot"]), kind="geo")
            if gq is not None:
                M["terms"].append(gq)
        # the rarely used geometric quantities (same equality / repr / signature code, own shapes);
        # most of them cannot be lowered, so they join the pools but not the form programs' terms
        for name in r.sample(GEO_MORE, r.choice([0, 0, 1, 2])):
            gq = self.call("ufl.classes." + name, self.ref(M["slot"]), kind="geo")
            if gq is not None:
                M["geos"].append(gq)
                if self.cfg.get("rare_geo_in_terms") and r.random() < 0.5:
                    M["terms"].append(gq)
        V = r.choice(M["spaces"])
        M["V"] = V
        M["v"] = self.call("ufl.TestFunction", self.ref(V), kind="arg")
        M["u"] = self.call("ufl.TrialFunction", self.ref(V), kind="arg")

    # ---------------------------------------------------------------- expressions
    def shape(self, s):
        return tuple(self.obj(s).ufl_shape)

    def nfi(self, s):
        return len(self.obj(s).ufl_free_indices)

    def lit(self):
        r = self.rng
        v = r.choice([0, 1, 2, -1, 3, 0.5, 2.0, -1.5, 10, 1e-3, 7, 100])
        q = r.random()
        if q < 0.04:
            v = ["c", 1.5, -0.5]
        elif q < 0.14:
            # computed floats whose shortest repr needs 16-17 significant digits
            v = r.choice([1 / 3, 0.1 + 0.2, 3.141592653589793, 2.718281828459045, 1 + 2**-52, 1e-17 / 3, 123456789.12345679, -2 / 3])
        elif q < 0.16:
            v = ["c", 1 / 3, 0.1 + 0.2]
        if r.random() < self.cfg.get("exotic_p", 0.04):
            # the same numbers arriving as bool / numpy scalars (as_ufl normalises them)
            k = r.choice([1, 2, 3, 7, 10, 99, 100, 200])
            v = r.choice([True, ["np", "int64", k], ["np", "int32", k], ["np", "float64", 0.5], ["np", "float64", float(k)], ["np", "int64", -1]])
        return self.call("ufl.as_ufl", v)

    def terminal(self, M):
        r = self.rng
        if r.random() < 0.12:
            t = self.lit()
            if t is not None:
                return t
        return r.choice(M["terms"])

    def scalar(self, M, depth):
        """A scalar-valued index-free expression slot (or None)."""
        r = self.rng
        e = self.expr(M, depth)
        for _ in range(4):
            if e is None:
                return None
            o = self.obj(e)
            if not isinstance(o, Expr):
                return None
            sh = o.ufl_shape
            if o.ufl_free_indices:
                return None
            if sh == ():
                return e
            k = r.random()
            if len(sh) == 1:
                if k < 0.5:
                    e = self.call("operator.getitem", self.ref(e), r.randrange(sh[0]))
                else:
                    e = self.call("ufl.dot", self.ref(e), self.ref(e))
            elif len(sh) == 2:
                c = r.randrange(4)
                if c == 0 and sh[0] == sh[1]:
                    e = self.call("ufl.tr", self.ref(e))
                elif c == 1:
                    e = self.call("ufl.inner", self.ref(e), self.ref(e))
                elif c == 2 and sh[0] == sh[1] and sh[0] <= 3:
                    e = self.call("ufl.det", self.ref(e))
                else:
                    e = self.call("operator.getitem", self.ref(e), ["t", r.randrange(sh[0]), r.randrange(sh[1])])
            else:
                e = self.call("operator.getitem", self.ref(e), ["t"] + [0] * len(sh))
        return e if e is not None and self.shape(e) == () and not self.nfi(e) else None

    def expr(self, M, depth):
        r = self.rng
        if depth <= 0 or r.random() < 0.15:
            return self.terminal(M)
        for _ in range(3):
            e = self._op(M, depth)
            if e is not None and isinstance(self.obj(e), Expr):
                return e
        return self.terminal(M)

    def _op(self, M, depth):
        r = self.rng
        g = M["gdim"]
        k = r.randrange(34)
        if k >= 30:
            return self._op_extra(M, depth)
        if k >= 27 and self.fam.get("flat", True):
            return self.flat(M)
        a = self.expr(M, depth - 1)
        if a is None:
            return None
        A = self.ref(a)
        sh = self.shape(a)
        if k == 0:
            b = self.expr(M, depth - 1)
            if b is not None and self.shape(b) == sh and self.nfi(a) == self.nfi(b) == 0:
                return self.call("operator.add", A, self.ref(b))
            return self.call("operator.add", A, A)
        if k == 1:
            s = self.scalar(M, depth - 1)
            return self.call("operator.mul", self.ref(s) if s is not None else 2, A)
        if k == 2:
            s = self.scalar(M, depth - 1)
            return self.call("operator.truediv", A, self.ref(s) if s is not None else 2)
        if k == 3:
            return self.call("operator.neg", A)
        if k == 4:
            s = self.scalar(M, depth - 1)
            if s is None:
                return None
            return self.call("operator.pow", self.ref(s), r.choice([2, 3, 0.5, -1]))
        if k == 5:
            s = self.scalar(M, depth - 1)
            if s is None:
                return None
            return self.call("ufl." + r.choice(MATH1 + ["abs_"]).replace("abs_", "algebra.Abs"), self.ref(s))
        if k == 6:
            return self.call("ufl.grad", A)
        if k == 7:
            return self.call("ufl.div", A) if len(sh) >= 1 else self.call("ufl.grad", A)
        if k == 8:
            b = self.expr(M, depth - 1)
            if b is not None and self.shape(b) == sh:
                return self.call("ufl.inner", A, self.ref(b))
            return self.call("ufl.inner", A, A)
        if k == 9:
            b = self.expr(M, depth - 1)
            if b is None:
                return None
            return self.call("ufl.dot", A, self.ref(b))
        if k == 10:
            b = self.expr(M, depth - 1)
            if b is None or len(sh) + len(self.shape(b)) > 3:
                return None
            return self.call("ufl.outer", A, self.ref(b))
        if k == 11:
            if not sh:
                return a
            if self.cfg.get("indexed_sums") and not self.nfi(a):
                # a nest of tensor-valued sums under one index operation (the simplification
                # of Indexed recurses through every level)
                for _ in range(r.randint(1, self.cfg["indexed_sums"])):
                    b = self.expr(M, max(0, depth - 2))
                    if b is not None and self.shape(b) == sh and not self.nfi(b):
                        a = self.call("operator.add", self.ref(a), self.ref(b)) or a
                    else:
                        a = self.call("operator.add", self.ref(a), self.ref(a)) or a
                A = self.ref(a)
            return self.call("operator.getitem", A, ["t"] + [r.randrange(n) for n in sh])
        if k == 12:
            if len(sh) == 2:
                i = self.call("ufl.Index", kind="index")
                j = self.call("ufl.Index", kind="index")
                ij = self.call("operator.getitem", A, ["t", self.ref(i), self.ref(j)])
                if ij is None:
                    return None
                return self.call("ufl.as_tensor", self.ref(ij), ["t", self.ref(j), self.ref(i)])
            if len(sh) == 1:
                i = self.call("ufl.Index", kind="index")
                ai = self.call("operator.getitem", A, self.ref(i))
                if ai is None:
                    return None
                ai2 = self.call("operator.mul", 2, self.ref(ai))
                return self.call("ufl.as_tensor", self.ref(ai2), ["t", self.ref(i)])
            return a
        if k == 13:
            if not (len(sh) == 2 and sh[0] == sh[1]):
                # make a square matrix from a vector-valued terminal
                vec = [t for t in M["terms"] if len(self.shape(t)) == 1 and self.shape(t)[0] == g]
                if not vec:
                    return a
                v_ = r.choice(vec)
                a = self.call("ufl.grad", self.ref(v_)) if r.random() < 0.6 else self.call("ufl.outer", self.ref(v_), self.ref(v_))
                if a is None:
                    return None
                A = self.ref(a)
                sh = self.shape(a)
            if len(sh) == 2 and sh[0] == sh[1]:
                fs = ["tr", "dev", "sym", "skew", "transpose", "det", "inv", "cofac", "diag"] if sh[0] <= 3 else ["tr", "sym", "transpose"]
                return self.call("ufl." + r.choice(fs), A)
            return a
        if k == 14:
            s1 = self.scalar(M, depth - 1)
            s2 = self.scalar(M, depth - 1)
            b = self.expr(M, depth - 1)
            if s1 is None or s2 is None or b is None or self.shape(b) != sh or self.nfi(a) or self.nfi(b):
                return None
            c = self.call("ufl." + r.choice(["lt", "gt", "le", "ge", "eq", "ne"]), self.ref(s1), self.ref(s2))
            if c is None:
                return None
            return self.call("ufl.conditional", self.ref(c), A, self.ref(b))
        if k == 15:
            va = self.call("ufl.variable", A)
            if va is None:
                return None
            if sh:
                f = self.call("ufl.inner", self.ref(va), self.ref(va))
            else:
                f = self.call("operator.pow", self.ref(va), 2)
            if f is None:
                return None
            return self.call("ufl.diff", self.ref(f), self.ref(va))
        if k == 16:
            n = r.randint(1, 3)
            comps = [self.scalar(M, depth - 1) for _ in range(n)]
            if any(c is None for c in comps):
                return None
            return self.call("ufl.as_vector", [self.ref(c) for c in comps])
        if k == 17:
            if len(sh) >= 1:
                b = self.expr(M, depth - 1)
                if b is None:
                    return None
                bsh = self.shape(b)
                if bsh and bsh[0] == sh[0]:
                    i = self.call("ufl.Index", kind="index")
                    ai = self.call("operator.getitem", A, ["t", self.ref(i)] + [0] * (len(sh) - 1))
                    bi = self.call("operator.getitem", self.ref(b), ["t", self.ref(i)] + [0] * (len(bsh) - 1))
                    if ai is None or bi is None:
                        return None
                    return self.call("operator.mul", self.ref(ai), self.ref(bi))
            return None
        if k == 18:
            out = self.new()
            if self.emit(["meth", out, A, "dx", [r.randrange(g)]]):
                return out
            return None
        if k == 19:
            if sh == (3,):
                b = self.expr(M, depth - 1)
                if b is not None and self.shape(b) == (3,):
                    return self.call("ufl.cross", A, self.ref(b))
                return self.call("ufl.curl", A)
            return None
        if k == 20:
            b = self.expr(M, depth - 1)
            if b is not None and self.shape(b) == sh and not self.nfi(a) and not self.nfi(b):
                return self.call("operator.sub", A, self.ref(b))
            return None
        if k == 21:
            s1 = self.scalar(M, depth - 1)
            s2 = self.scalar(M, depth - 1)
            if s1 is None or s2 is None:
                return None
            return self.call("ufl." + r.choice(["max_value", "min_value"]), self.ref(s1), self.ref(s2))
        if k == 22:
            return self.call("ufl.nabla_grad", A)
        if k == 23:
            if len(sh) == 2:
                return self.call("ufl.transpose", A)
            if len(sh) == 1:
                return self.call("ufl.outer", A, A)
            return None
        if k == 24:
            s = self.scalar(M, depth - 1)
            if s is None:
                return None
            return self.call("ufl." + r.choice(["sign", "real", "imag", "conj"]), self.ref(s))
        if k == 25:
            # a second occurrence of an existing sub-expression (DAG sharing), or a
            # labelled variable (Label counter)
            if self.exprs and r.random() < 0.5:
                return r.choice(self.exprs)
            va = self.call("ufl.variable", A)
            if va is None:
                return a
            if r.random() < 0.5:
                return self.call("operator.add", self.ref(va), self.ref(va))
            return va
        if k == 26 and r.random() < 0.5:
            b = self.expr(M, depth - 1)
            if b is None or self.shape(b) != sh or not sh:
                return None
            return self.call("ufl." + r.choice(["elem_mult", "elem_div"]), A, self.ref(b))
        if k == 26:
            # a conditional one of whose branches is a Zero that carries a free index
            if len(sh) != 1 or self.nfi(a):
                return None
            s1 = self.scalar(M, depth - 1)
            if s1 is None:
                return None
            i = self.call("ufl.Index", kind="index")
            ai = self.call("operator.getitem", A, self.ref(i))
            zi = self.call("operator.mul", 0, self.ref(ai)) if ai is not None else None
            c = self.call("ufl.lt", self.ref(s1), 0)
            if zi is None or c is None:
                return None
            br = [self.ref(ai), self.ref(zi)]
            if r.random() < 0.5:
                br.reverse()
            cnd = self.call("ufl.conditional", self.ref(c), br[0], br[1])
            if cnd is None:
                return None
            return self.call("operator.mul", self.ref(cnd), self.ref(ai))
        return a

    def _op_extra(self, M, depth):
        """Less common public operators (each has its own node class with its own
        constructor, repr, signature data and pickling)."""
        r = self.rng
        g = M["gdim"]
        k = r.randrange(16)
        if k == 0:
            s = self.scalar(M, depth - 1)
            if s is None:
                return None
            return self.call("ufl." + r.choice(["bessel_J", "bessel_Y", "bessel_I", "bessel_K"]), r.choice([0, 1, 2]), self.ref(s))
        if k == 1:
            s1, s2 = self.scalar(M, depth - 1), self.scalar(M, depth - 1)
            if s1 is None or s2 is None:
                return None
            return self.call("ufl.atan2", self.ref(s1), self.ref(s2))
        if k in (2, 3):
            a = self.expr(M, depth - 1)
            if a is None or self.nfi(a):
                return None
            return self.call("ufl." + ("cell_avg" if k == 2 else "facet_avg"), self.ref(a))
        a = self.expr(M, depth - 1)
        if a is None:
            return None
        A = self.ref(a)
        sh = self.shape(a)
        if k == 4:
            return self.call("ufl.nabla_div", A) if sh else self.call("ufl.nabla_grad", A)
        if k == 5:
            if sh == (2,):
                return self.call("ufl." + r.choice(["perp", "rot"]), A)
            return None
        if k == 6:
            if len(sh) == 2 and sh[0] == sh[1]:
                return self.call("ufl." + r.choice(["diag", "diag_vector"]), A)
            if len(sh) == 1:
                return self.call("ufl.diag", A)
            return None
        if k == 7:
            b = self.expr(M, depth - 1)
            if b is None or self.shape(b) != sh or not sh:
                return None
            return self.call("ufl.elem_pow", A, self.ref(b))
        if k == 8:
            if sh == () and not self.nfi(a):
                return self.call("ufl.Dn", A)
            return None
        if k == 9:
            return self.call("ufl.Dx", A, r.randrange(g))
        if k == 10:
            d = r.choice([2, 3])
            t = self.call("ufl.unit_vector", r.randrange(d), d) if r.random() < 0.5 else self.call("ufl.unit_matrix", r.randrange(d), r.randrange(d), d)
            return t
        if k == 11:
            return self.call("ufl.zero", *[self.lit_tuple(sh)] if sh else [])
        if k == 12:
            c = self.call("ufl." + r.choice(["VectorConstant", "TensorConstant"]), self.ref(M["slot"]), kind="const")
            if c is not None:
                M["consts"].append(c)
            return c
        if k == 13:
            # components of a coefficient on a mixed space
            mixed = [c for c in M["coefs"] if type(self.obj(c).ufl_element()).__name__ == "MixedElem"]
            if not mixed:
                return None
            tmp = self.new()
            c = r.choice(mixed)
            if not self.emit(["call", tmp, "ufl.split", [self.ref(c)]]):
                return None
            n = self.obj(c).ufl_element().num_sub_elements
            outs = [self.new() for _ in range(n)]
            self.emit(["unpack", None, self.ref(tmp), outs])
            ok = [o for o in outs if o in self.node.slots]
            for o in ok:
                self.info[o] = self.describe(self.node.slots[o])
            return r.choice(ok) if ok else None
        if k == 14:
            # only on a coefficient itself: for an indexed component of a non-mixed element
            # ufl.exterior_derivative never returns (`while index != 0` over no sub-elements),
            # which stalls the planner until its time-out
            if a in M["coefs"]:
                return self.call("ufl.exterior_derivative", A)
            return None
        if k == 15:
            return self.call("ufl.elem_op", ["fn", r.choice(["ufl.sin", "ufl.cos"])], A) if sh else None
        return a

    # ------------------------------------------------------ targeted families (DESIGN 2.1)
    def flat(self, M):
        """Flat commutative family: sums / products of 2-4 bare scalar terminals of the
        same kind, possibly from different meshes - the only place where a creation count
        can decide operand order."""
        r = self.rng
        pools = []
        allM = self.meshes
        consts = [c for m in allM for c in m["consts"] if self.shape(c) == ()]
        coefs = [c for m in allM for c in m["coefs"] if self.shape(c) == ()]
        geos = [q for m in allM for q in m["geos"] if self.shape(q) == ()]
        if len(allM) > 1 and r.random() < 0.5:
            # components of the spatial coordinate of each mesh
            for m in allM:
                if m.get("x0") is None:
                    m["x0"] = self.call("operator.getitem", self.ref(m["x"]), 0)
                if m.get("x0") is not None:
                    geos.append(m["x0"])
        for p in (consts, coefs, geos, geos, consts + geos, consts + coefs):
            if len(p) >= 2:
                pools.append(p)
        if not pools:
            return None
        p = r.choice(pools)
        picks = r.sample(p, min(len(p), r.randint(2, 4)))
        if r.random() < 0.25:
            # symmetric conditions between two terminals of the same kind
            t1, t2 = picks[0], picks[1]
            w = r.choice(["eq", "ne", "and", "or"])
            if w in ("eq", "ne"):
                c = self.call("ufl." + w, self.ref(t1), self.ref(t2))
            else:
                c1 = self.call("ufl.lt", self.ref(t1), 1)
                c2 = self.call("ufl." + r.choice(["lt", "gt"]), self.ref(t2), 1)
                c = self.call("ufl.And" if w == "and" else "ufl.Or", self.ref(c1), self.ref(c2)) if c1 is not None and c2 is not None else None
                if c is not None and r.random() < 0.3:
                    c = self.call("ufl.Not", self.ref(c)) or c
            if c is not None:
                e = self.call("ufl.conditional", self.ref(c), self.ref(t1), self.ref(t2))
                if e is not None:
                    return e
        if len(picks) >= 3 and r.random() < 0.15:
            # one product in which several bases cancel at once: (t1**a * t2**b * t3) * (1/t1) * (1/t2**c)
            num = None
            for t, pw in zip(picks, [3, 4, 1, 2]):
                f_ = self.call("operator.pow", self.ref(t), pw) if pw > 1 else t
                num = f_ if num is None else (self.call("operator.mul", self.ref(num), self.ref(f_)) if f_ is not None else num)
            den = None
            for t, pw in zip(picks[:2], [1, 2]):
                b_ = self.call("operator.pow", self.ref(t), pw) if pw > 1 else t
                i_ = self.call("operator.truediv", 1, self.ref(b_)) if b_ is not None else None
                den = i_ if den is None else (self.call("operator.mul", self.ref(den), self.ref(i_)) if i_ is not None else den)
            if num is not None and den is not None:
                e = self.call("operator.mul", self.ref(num), self.ref(den))
                if e is not None:
                    self.multi_cancel = True
                    return e
        e = picks[0]
        opn = r.choice(["mul", "add", "mix"])
        for q in picks[1:]:
            f = opn if opn != "mix" else r.choice(["mul", "add"])
            e = self.call("operator." + f, self.ref(e), self.ref(q))
            if e is None:
                return None
        return e

    # ---------------------------------------------------------------- forms
    def metadata(self):
        r = self.rng
        k = r.random()
        if k < 0.45:
            return None
        if k < 0.6 and self.dicts:
            return self.ref(r.choice(self.dicts))  # shared dict object (aliasing)
        md = r.choice(
            [
                {"quadrature_degree": r.choice([1, 2, 3])},
                {"quadrature_rule": "default", "quadrature_degree": 2},
                {"quadrature_degree": 2, "quadrature_rule": "default"},
                {"opt": True, "quadrature_degree": r.choice([2, 4]), "name": "k"},
                {"a": 1, "b": [1, 2], "c": {"x": 1.5}},
            ]
            + ([{"estimated_polynomial_degree": r.choice([1, 2, 3])}, {"quadrature_degree": 2, "estimated_polynomial_degree": 2}] if self.cfg.get("md_degree") else [])
        )
        out = self.new()
        if self.emit(["lit", out, md], kind="dict"):
            self.dicts.append(out)
            return self.ref(out)
        return None

    def measure(self, M, kinds=("dx", "dx", "dx", "ds", "dS"), like=None):
        r = self.rng
        kind = r.choice(kinds)
        kw = {"domain": self.ref(M["slot"])}
        sid = r.choice(["everywhere", "everywhere", 1, 2, ["t", 1, 2], "otherwise"])
        if like is not None:
            # same integral type and subdomain as an earlier integral, other metadata
            kind, sid = like
        self.last_measure = (kind, sid)
        if sid != "everywhere":
            kw["subdomain_id"] = sid
        md = self.metadata()
        if like is not None and md is None and r.random() < 0.8:
            out = self.new()
            if self.emit(["lit", out, {"quadrature_degree": r.choice([1, 2, 3, 4, 5])}], kind="dict"):
                md = self.ref(out)
        if md is not None:
            kw["metadata"] = md
        if md is None and r.random() < self.cfg.get("global_measure_p", 0.35):
            # the module-level measure (ufl.dx / ds / dS): dx(domain, ...) hands the global
            # measure's own metadata dict on to every form built with it
            out = self.new()
            if r.random() < 0.6:
                # the bare module-level measure itself (f*dx): the integral keeps a reference
                # to the global measure's metadata dict
                m = out if self.emit(["lit", out, ["fn", "ufl." + kind]], kind="measure") else None
            else:
                m = out if self.emit(["meth", out, ["fn", "ufl." + kind], "__call__", [], kw], kind="measure") else None
        elif md is None and like is None and r.random() < 0.08:
            # a measure without a domain (taken from the integrand) and with several subdomain
            # ids, kept by the user and used for more than one form
            if getattr(self, "_loose_measure", None) is None or r.random() < 0.3:
                self._loose_measure = self.call("ufl.Measure", kind, kind="measure", subdomain_id=["t", 1, 2])
                self._loose_kind = kind
            m = self._loose_measure
            if m is not None:
                kind = self._loose_kind
                self.dicts.append(m)
        else:
            m = self.call("ufl.Measure", kind, kind="measure", **kw)
        if m is not None and r.random() < 0.15:
            out = self.new()
            kw2 = {"degree": r.choice([1, 2, 3])}
            if self.dicts and r.random() < 0.5:
                # the user's own dict and a degree in one call: the measure must work on a copy
                kw2["metadata"] = self.ref(r.choice(self.dicts))
                if r.random() < 0.3:
                    kw2["scheme"] = "default"
            if self.emit(["meth", out, self.ref(m), "__call__", [], kw2], kind="measure"):
                m = out
        return kind, m

    def integrand(self, M, rank, depth, kind):
        r = self.rng
        s = None
        for _ in range(4):
            s = self.scalar(M, depth)
            if s is not None:
                break
        if s is None:
            s = self.call("ufl.as_ufl", 1.0)
        for which in (["v"] if rank >= 1 else []) + (["u"] if rank == 2 else []):
            a = M[which]
            ash = self.shape(a)
            if ash:
                a = self.call("operator.getitem", self.ref(a), ["t"] + [r.randrange(n) for n in ash])
            if a is None:
                return None
            if r.random() < 0.2:
                ga = self.call("ufl.grad", self.ref(a))
                if ga is not None:
                    a2 = self.call("operator.getitem", self.ref(ga), 0)
                    a = a2 if a2 is not None else a
            s = self.call("operator.mul", self.ref(s), self.ref(a))
            if s is None:
                return None
        if kind == "dS":
            out = self.new()
            side = r.choice(["+", "-"])
            if r.random() < 0.3:
                s2 = self.call("ufl." + r.choice(["avg", "jump"]), self.ref(s))
                if s2 is not None:
                    return s2
            if self.emit(["meth", out, self.ref(s), "__call__", [side]]):
                return out
            return None
        return s

    def form(self, M, rank, depth=3, nint=None):
        r = self.rng
        f = None
        last = None
        for _ in range(nint or r.randint(1, 3)):
            kind, m = self.measure(M, like=last if last is not None and r.random() < 0.35 else None)
            if m is None:
                continue
            same_term = last is not None and self.last_measure == last and getattr(self, "_last_integrand", None) is not None and r.random() < 0.4
            last = self.last_measure
            # the same term under two sets of compiler parameters (two quadrature degrees,
            # lumped and consistent mass): equal integrands, other metadata
            s = self._last_integrand if same_term else self.integrand(M, rank, depth, kind)
            if s is None:
                continue
            self._last_integrand = s
            self.exprs.append(s)
            itg = self.call("operator.mul", self.ref(s), self.ref(m), kind="form")
            if itg is None:
                continue
            f = itg if f is None else (self.call("operator.add", self.ref(f), self.ref(itg), kind="form") or f)
        if f is not None:
            if r.random() < 0.15:
                f2 = self.call("operator.mul", r.choice([2.0, -1, 0.5]), self.ref(f), kind="form")
                f = f2 if f2 is not None else f
            elif r.random() < 0.1:
                f2 = self.call("operator.neg", self.ref(f), kind="form")
                f = f2 if f2 is not None else f
            self.forms.append((f, rank, self.meshes.index(M)))
        return f

    def mfs_form(self, M):
        """A bilinear form over a MixedFunctionSpace (arguments with parts)."""
        r = self.rng
        if len(M["spaces"]) < 2:
            return None
        sp = r.sample(M["spaces"], 2)
        W = self.call("ufl.MixedFunctionSpace", self.ref(sp[0]), self.ref(sp[1]), kind="space")
        if W is None:
            return None
        tr, te = self.new(), self.new()
        if not self.emit(["call", tr, "ufl.TrialFunctions", [self.ref(W)]]) or not self.emit(["call", te, "ufl.TestFunctions", [self.ref(W)]]):
            return None
        us = [self.new(), self.new()]
        vs = [self.new(), self.new()]
        self.emit(["unpack", None, self.ref(tr), us])
        self.emit(["unpack", None, self.ref(te), vs])

        def sc(x):
            sh = self.shape(x)
            if sh:
                return self.call("operator.getitem", self.ref(x), ["t"] + [0] * len(sh))
            return x

        if any(x not in self.node.slots for x in us + vs):
            return None
        us = [sc(x) for x in us]
        vs = [sc(x) for x in vs]
        if any(x is None for x in us + vs):
            return None
        f = None
        terms = [(0, 0), (1, 1), (0, 1), (1, 0)]
        r.shuffle(terms)
        for a, b in terms[: r.randint(2, 4)]:
            e = self.call("operator.mul", self.ref(us[a]), self.ref(vs[b]))
            if e is None:
                continue
            if r.random() < 0.4:
                s0 = self.scalar(M, 1)
                if s0 is not None:
                    e = self.call("operator.mul", self.ref(s0), self.ref(e)) or e
            kind, m = self.measure(M, kinds=("dx", "dx", "ds"))
            if m is None:
                continue
            itg = self.call("operator.mul", self.ref(e), self.ref(m), kind="form")
            if itg is None:
                continue
            f = itg if f is None else (self.call("operator.add", self.ref(f), self.ref(itg), kind="form") or f)
        if f is not None:
            self.forms.append((f, 2, self.meshes.index(M)))
            # derived forms that iterate over form.arguments()
            for fn in r.sample(["ufl.action", "ufl.adjoint", "ufl.extract_blocks", "ufl.lhs", "ufl.algorithms.expand_derivatives"], r.randint(1, 3)):
                d = self.call(fn, self.ref(f), kind="form", keep_failed=self.cfg.get("keep_failed", False))
                if d is not None and d in self.node.slots and isinstance(self.obj(d), Form):
                    try:
                        rk = len(self.obj(d).arguments())
                    except BaseException:  # noqa: B036
                        continue
                    self.derived.append((d, rk, self.meshes.index(M)))
        return f

    def mesh_sequence_form(self):
        """A multi-domain form over a MeshSequence: a mixed space whose components live on
        different meshes, integrals with intersect_measures, coefficients that
        compute_form_data splits into new per-mesh coefficients."""
        r = self.rng
        cell = r.choice(["triangle", "triangle", "interval", "tetrahedron"])
        g = CELLS[cell]
        n = r.choice([2, 2, 3])
        meshes = []
        for _ in range(n):
            ce = self.elem("Lagrange", cell, 1, (g,))
            m = self.call("ufl.Mesh", self.ref(ce), kind="mesh")
            if m is None:
                return None
            meshes.append(m)
        specs = [("Lagrange", 1, (), "H1"), ("Lagrange", 2, (), "H1"), ("Discontinuous Lagrange", 0, (), "L2"), ("Lagrange", 1, (g,), "H1")]
        elems = []
        for _ in range(n):
            fam_, k, sh, sob = r.choice(specs)
            elems.append(self.elem(fam_, cell, k, sh, sob=sob))
        me = self.call("sim.elements.MixedElem", [self.ref(e) for e in elems], kind="elem", make_cell_sequence=True)
        seq = [self.ref(m) for m in meshes]
        dom = self.call("ufl.MeshSequence", (["t"] + seq) if r.random() < 0.4 else seq, kind="mesh")
        if me is None or dom is None:
            return None
        V = self.call("ufl.FunctionSpace", self.ref(dom), self.ref(me), kind="space")
        Vi = [self.call("ufl.FunctionSpace", self.ref(m), self.ref(e), kind="space") for m, e in zip(meshes, elems)]
        if V is None or any(x is None for x in Vi):
            return None
        f = self.call("ufl.Coefficient", self.ref(V), kind="coef")
        gq = self.call("ufl.Coefficient", self.ref(V), kind="coef")
        if f is None or gq is None:
            return None
        parts = []
        for c in (f, gq):
            tmp = self.new()
            if not self.emit(["call", tmp, "ufl.split", [self.ref(c)]]):
                return None
            outs = [self.new() for _ in range(n)]
            self.emit(["unpack", None, self.ref(tmp), outs])
            if any(o not in self.node.slots for o in outs):
                return None
            parts.append(outs)

        def sc(x):
            sh = self.shape(x)
            if sh:
                return self.call("operator.getitem", self.ref(x), ["t"] + [r.randrange(k_) for k_ in sh])
            return x

        rank = r.choice([0, 1, 2, 2])
        total = None
        for _ in range(r.randint(1, 3)):
            a, b = r.randrange(n), r.randrange(n)
            fa, gb = sc(parts[0][a]), sc(parts[1][b])
            if fa is None or gb is None:
                continue
            e = self.call("operator.mul", self.ref(fa), self.ref(gb))
            if e is not None and r.random() < 0.4:
                x = self.call("ufl.SpatialCoordinate", self.ref(meshes[r.randrange(n)]), kind="geo")
                x0 = self.call("operator.getitem", self.ref(x), 0) if x is not None else None
                if x0 is not None:
                    e = self.call("operator.mul", self.ref(x0), self.ref(e)) or e
            used = {a, b}
            if rank >= 1 and e is not None:
                i = r.randrange(n)
                v = sc(self.call("ufl.TestFunction", self.ref(Vi[i]), kind="arg"))
                e = self.call("operator.mul", self.ref(e), self.ref(v)) if v is not None else None
                used.add(i)
            if rank == 2 and e is not None:
                j = r.randrange(n)
                u = sc(self.call("ufl.TrialFunction", self.ref(Vi[j]), kind="arg"))
                e = self.call("operator.mul", self.ref(e), self.ref(u)) if u is not None else None
                used.add(j)
            if e is None:
                continue
            k_ = r.choice(sorted(used))
            others = [self.call("ufl.Measure", "dx", kind="measure", domain=self.ref(meshes[o])) for o in sorted(used) if o != k_]
            kw = {"domain": self.ref(meshes[k_])}
            if others:
                if any(o is None for o in others):
                    continue
                kw["intersect_measures"] = ["t"] + [self.ref(o) for o in others]
            sid = r.choice([None, 1, 999])
            if sid is not None:
                kw["subdomain_id"] = sid
            m = self.call("ufl.Measure", "dx", kind="measure", **kw)
            if m is None:
                continue
            itg = self.call("operator.mul", self.ref(e), self.ref(m), kind="form")
            if itg is None:
                continue
            self.exprs.append(e)
            total = itg if total is None else (self.call("operator.add", self.ref(total), self.ref(itg), kind="form") or total)
        if total is None:
            return None
        # a pseudo mesh record so that derive() can work on the form
        M = {"slot": meshes[0], "cell": cell, "tdim": g, "gdim": g, "spaces": Vi, "terms": [f, gq], "consts": [], "coefs": [f, gq], "geos": [], "args": {}, "V": Vi[0], "x": None, "v": None, "u": None, "msq": True}
        self.meshes.append(M)
        self.forms.append((total, rank, len(self.meshes) - 1))
        kf = self.cfg.get("keep_failed", False)
        for _ in range(r.randint(1, 2)):
            kw = {"do_apply_function_pullbacks": True, "do_apply_integral_scaling": True, "do_apply_geometry_lowering": True, "do_replace_functions": True}
            if r.random() < 0.8:
                kw["coefficients_to_split"] = ["t"] + [self.ref(c) for c in r.sample([f, gq], r.randint(1, 2))]
            if r.random() < 0.5:
                kw["preserve_geometry_types"] = ["t", ["fn", "ufl.classes.CellVolume"], ["fn", "ufl.classes.FacetArea"]]
            fn = r.choice(["sim.ops.preprocessed_form", "sim.ops.form_data"])
            d = self.call(fn, self.ref(total), kind="form" if fn.endswith("preprocessed_form") else "formdata", keep_failed=kf, **kw)
            if d is None:
                continue
            if fn.endswith("form_data"):
                d = self.call("sim.ops.fd_integrals_form", self.ref(d), kind="form", keep_failed=kf)
            if d is not None and d in self.node.slots and isinstance(self.obj(d), Form):
                try:
                    rk = len(self.obj(d).arguments())
                except BaseException:  # noqa: B036
                    continue
                self.derived.append((d, rk, len(self.meshes) - 1))
                self.renumbered.add(d)
        return total

    def shape_derivative_form(self, M):
        """Sum of >= 2 derivative(F_i, SpatialCoordinate, v_i): the only route into the
        coordinate-derivative grouping of group_form_integrals."""
        r = self.rng
        vspaces = [s for s in M["spaces"] if tuple(self.obj(s).value_shape) == (M["gdim"],)]
        if not vspaces:
            e = self.elem("Lagrange", M["cell"], 1, (M["gdim"],))
            sp = self.call("ufl.FunctionSpace", self.ref(M["slot"]), self.ref(e), kind="space")
            if sp is None:
                return None
            M["spaces"].append(sp)
            vspaces = [sp]
        total = None
        for _ in range(r.randint(2, 4)):
            s = self.scalar(M, 2)
            if s is None:
                continue
            kind, m = self.measure(M, kinds=("dx",))
            if m is None:
                continue
            Fi = self.call("operator.mul", self.ref(s), self.ref(m), kind="form")
            if Fi is None:
                continue
            vi = self.call("ufl.Coefficient", self.ref(r.choice(vspaces)), kind="coef")
            d = self.call("ufl.derivative", self.ref(Fi), self.ref(M["x"]), self.ref(vi), kind="form")
            if d is None:
                continue
            total = d if total is None else (self.call("operator.add", self.ref(total), self.ref(d), kind="form") or total)
        if total is not None:
            self.forms.append((total, 0, self.meshes.index(M)))
        return total

    # ---------------------------------------------------------------- derived forms / algorithms
    def cfd_options(self):
        r = self.rng
        if getattr(self, "multi_cancel", False) and r.random() < 0.5:
            # the program holds a product in which several bases cancel at once: ask for the pass that cancels them
            kw = {"do_apply_function_pullbacks": True, "do_apply_geometry_lowering": True, "do_cancel_jacobian_products": True}
            if r.random() < 0.5:
                kw["do_apply_integral_scaling"] = True
            return kw
        kw = {}
        mode = r.random()
        if mode < 0.1 and self.cfg.get("user_sets", True):
            # the caller's own set of types to preserve (a set, not a tuple)
            st = self.new()
            if self.emit(["lit", st, ["set", ["fn", "ufl.classes." + r.choice(["CellVolume", "FacetArea", "Jacobian", "FacetNormal"])]]], kind="set"):
                self.dicts.append(st)
                return {"do_apply_function_pullbacks": True, "do_apply_integral_scaling": True, "do_apply_geometry_lowering": True, "preserve_geometry_types": self.ref(st)}
        if mode < 0.12:
            # option set of a form compiler that estimates degrees itself
            kw = {"do_apply_function_pullbacks": True, "do_apply_integral_scaling": True, "do_apply_geometry_lowering": True, "do_estimate_degrees": False}
            if r.random() < 0.5:
                kw["preserve_geometry_types"] = ["t", ["fn", "ufl.classes.CellVolume"], ["fn", "ufl.classes.FacetArea"]]
        elif mode < 0.35:
            kw = {"do_apply_function_pullbacks": True, "do_apply_integral_scaling": True, "do_apply_geometry_lowering": True}
            if r.random() < 0.5:
                kw["preserve_geometry_types"] = ["t", ["fn", "ufl.classes.Jacobian"]]
            if r.random() < 0.3:
                kw["do_cancel_jacobian_products"] = True
        elif mode < 0.5:
            kw = {}
        else:
            for f in CFD_FLAGS:
                if r.random() < 0.35:
                    kw[f] = r.random() < 0.6
        return kw

    def derive(self, fslot, rank, M, keep_failed=False):
        """Apply one public algorithm / form operator to a form; returns new slot or None."""
        r = self.rng
        F = self.ref(fslot)
        co = M["coefs"]
        choices = [
            "expand_derivatives",
            "preprocessed",
            "preprocessed",
            "derivative",
            "derivative2",
            "replace",
            "algebra_lowering",
            "apply_derivatives_chain",
            "renumber",
            "neg",
            "scale",
            "add_self",
            "strip_terminal_data",
            "expand_indices",
            "fd_integrals",
            "coordinate_derivative",
            "derivative_cd",
            "derivative_cd",
            "remove_complex",
            "pickle",
        ]
        if rank == 2:
            choices += ["adjoint", "action", "lhs", "rhs", "system", "energy_norm", "form_call"]
        if rank == 1:
            choices += ["form_call"]
        choices += ["functional", "form_call_coefs"]
        if rank == 1:
            choices += ["rhs", "lhs", "action1"]
        if rank >= 1:
            choices += ["extract_blocks"]
        if self.cfg.get("single_pass"):
            choices += ["single_pass", "single_pass"]
        c = r.choice(choices)
        bias = [b for b in self.cfg.get("derive_bias", ()) if b in choices]
        if bias and r.random() < 0.6:
            c = r.choice(bias)
        kf = keep_failed
        if c == "expand_derivatives":
            return self.call("ufl.algorithms.expand_derivatives", F, kind="form", keep_failed=kf)
        if c == "preprocessed":
            return self.call("sim.ops.preprocessed_form", F, kind="form", keep_failed=kf, **self.cfd_options())
        if c == "fd_integrals":
            fd = self.call("sim.ops.form_data", F, kind="formdata", keep_failed=kf, **self.cfd_options())
            if fd is None:
                return None
            return self.call("sim.ops.fd_integrals_form", self.ref(fd), kind="form", keep_failed=kf)
        if c == "derivative" and co:
            u = r.choice(co)
            if r.random() < 0.5:
                return self.call("ufl.derivative", F, self.ref(u), kind="form", keep_failed=kf)
            du = self.call("ufl.Coefficient", self.ref(self._space_of(u)), kind="coef")
            if du is None:
                return None
            return self.call("ufl.derivative", F, self.ref(u), self.ref(du), kind="form", keep_failed=kf)
        if c == "derivative2" and co:
            u = r.choice(co)
            d1 = self.call("ufl.derivative", F, self.ref(u), kind="form", keep_failed=kf)
            if d1 is None:
                return None
            d2 = self.call("ufl.derivative", self.ref(d1), self.ref(r.choice(co)), kind="form", keep_failed=kf)
            if d2 is None:
                return d1
            return self.call("ufl.algorithms.expand_derivatives", self.ref(d2), kind="form", keep_failed=kf) or d2
        if c == "derivative_cd":
            sc = [x for x in co if self.shape(x) == ()]
            if len(sc) < 3:
                return None
            # prefer coefficients that actually occur in the form
            try:
                inform = set(self.obj(fslot).coefficients())
            except BaseException:  # noqa: B036
                inform = set()
            present = [x for x in sc if self.obj(x) in inform]
            u = r.choice(present or sc)
            cand = [x for x in present if x != u]
            if len(cand) < 2:
                cand = [x for x in sc if x != u]
            ws = r.sample(cand, min(len(cand), r.randint(2, 3)))
            pairs = []
            for w in ws:
                dw = self.call(r.choice(["ufl.sin", "ufl.cos", "ufl.exp"]), self.ref(u))
                if dw is not None:
                    pairs.append([self.ref(w), self.ref(dw)])
            if len(pairs) < 2:
                return None
            if r.random() < 0.4:
                # the caller's own dict, with a python number among the values
                if r.random() < 0.5:
                    pairs[-1] = [pairs[-1][0], r.choice([2, 0.5, 1])]
                cd = self.new()
                if self.emit(["lit", cd, ["d", pairs]], kind="mapping"):
                    self.dicts.append(cd)
                    d = self.call("ufl.derivative", F, self.ref(u), kind="form", keep_failed=kf, coefficient_derivatives=self.ref(cd))
                else:
                    d = None
            else:
                d = self.call("ufl.derivative", F, self.ref(u), kind="form", keep_failed=kf, coefficient_derivatives=["d", pairs])
            if d is not None and r.random() < 0.5:
                return self.call("ufl.algorithms.expand_derivatives", self.ref(d), kind="form", keep_failed=kf) or d
            return d
        if c == "coordinate_derivative":
            vsp = [s for s in M["spaces"] if tuple(self.obj(s).value_shape) == (M["gdim"],)]
            if not vsp:
                return None
            vi = self.call("ufl.Coefficient", self.ref(r.choice(vsp)), kind="coef")
            return self.call("ufl.derivative", F, self.ref(M["x"]), self.ref(vi), kind="form", keep_failed=kf)
        if c == "replace" and co:
            u = r.choice(co)
            w = self.call("ufl.Coefficient", self.ref(self._space_of(u)), kind="coef")
            if w is None:
                return None
            mapping = self.new()
            val = self.ref(w)
            if self.shape(u) == () and r.random() < 0.3:
                val = r.choice([2, 0.5, 0, 1])  # a python number: replace() has to wrap it itself
            if not self.emit(["lit", mapping, ["d", [[self.ref(u), val]]]], kind="mapping"):
                return None
            self.dicts.append(mapping)
            return self.call("ufl.replace", F, self.ref(mapping), kind="form", keep_failed=kf)
        if c == "single_pass":
            # one lowering pass called directly on the user's form (not through compute_form_data,
            # which hands its passes freshly made integrals and metadata dicts), optionally on the
            # output of the degree estimation
            src = F
            if r.random() < 0.5:
                e = self.call("ufl.algorithms.compute_form_data.attach_estimated_degrees", F, kind="form", keep_failed=kf)
                if e is None:
                    return None
                if r.random() < 0.2:
                    return e
                src = self.ref(e)
            fn = r.choice(
                [
                    "ufl.algorithms.apply_integral_scaling.apply_integral_scaling",
                    "ufl.algorithms.apply_integral_scaling.apply_integral_scaling",
                    "ufl.algorithms.apply_geometry_lowering.apply_geometry_lowering",
                    "ufl.algorithms.apply_function_pullbacks.apply_function_pullbacks",
                    "ufl.algorithms.apply_restrictions.apply_restrictions",
                    "ufl.algorithms.apply_restrictions.apply_default_restrictions",
                    "ufl.algorithms.apply_derivatives.apply_derivatives",
                ]
            )
            return self.call(fn, src, kind="form", keep_failed=kf)
        if c == "algebra_lowering":
            return self.call("ufl.algorithms.apply_algebra_lowering.apply_algebra_lowering", F, kind="form", keep_failed=kf)
        if c == "apply_derivatives_chain":
            a = self.call("ufl.algorithms.apply_algebra_lowering.apply_algebra_lowering", F, kind="form", keep_failed=kf)
            if a is None:
                return None
            b = self.call("ufl.algorithms.apply_derivatives.apply_derivatives", self.ref(a), kind="form", keep_failed=kf)
            if b is None:
                return a
            if r.random() < 0.5:
                c2 = self.call("ufl.algorithms.apply_integral_scaling.apply_integral_scaling", self.ref(b), kind="form", keep_failed=kf)
                return c2 or b
            return b
        if c == "expand_indices":
            a = self.call("ufl.algorithms.apply_algebra_lowering.apply_algebra_lowering", F, kind="form", keep_failed=kf)
            if a is None:
                return None
            b = self.call("ufl.algorithms.apply_derivatives.apply_derivatives", self.ref(a), kind="form", keep_failed=kf)
            if b is None:
                return a
            return self.call("ufl.algorithms.expand_indices", self.ref(b), kind="form", keep_failed=kf) or b
        if c == "renumber":
            return self.call("ufl.algorithms.renumbering.renumber_indices", F, kind="form", keep_failed=kf)
        if c == "neg":
            return self.call("operator.neg", F, kind="form")
        if c == "scale":
            return self.call("operator.mul", r.choice([2.0, 3, -0.5]), F, kind="form")
        if c == "add_self":
            other = r.choice([f for f in self.forms if f[1] == rank] or [(fslot, rank, 0)])[0]
            return self.call("operator.add", F, self.ref(other), kind="form", keep_failed=kf)
        if c == "strip_terminal_data":
            out = self.new()
            if not self.emit(["call", out, "ufl.algorithms.strip_terminal_data", [F]], keep_failed=kf, kind="stripped"):
                return None
            f2 = self.new()
            if self.emit(["call", f2, "sim.ops.nth", [self.ref(out), 0]], keep_failed=kf, kind="form") and f2 in self.node.slots:
                return f2
            return None
        if c == "remove_complex":
            return self.call("ufl.algorithms.remove_complex_nodes.remove_complex_nodes", F, kind="form", keep_failed=kf)
        if c == "adjoint":
            return self.call("ufl.adjoint", F, kind="form", keep_failed=kf)
        if c == "action" and co:
            cands = [u for u in co if self._space_of(u) == M["V"]]
            if cands and r.random() < 0.7:
                return self.call("ufl.action", F, self.ref(r.choice(cands)), kind="form", keep_failed=kf)
            return self.call("ufl.action", F, kind="form", keep_failed=kf)
        if c == "action1":
            return self.call("ufl.action", F, kind="form", keep_failed=kf)
        if c in ("lhs", "rhs", "functional"):
            return self.call("ufl." + c, F, kind="form", keep_failed=kf)
        if c == "energy_norm":
            if r.random() < 0.5:
                return self.call("ufl.energy_norm", F, kind="form", keep_failed=kf)
            w = self.call("ufl.Coefficient", self.ref(M["V"]), kind="coef")
            return self.call("ufl.energy_norm", F, self.ref(w), kind="form", keep_failed=kf) if w is not None else None
        if c == "form_call":
            ws = [self.call("ufl.Coefficient", self.ref(M["V"]), kind="coef") for _ in range(rank)]
            if any(w is None for w in ws):
                return None
            out = self.new()
            if self.emit(["meth", out, F, "__call__", [self.ref(w) for w in ws]], keep_failed=kf, kind="form"):
                return out
            return None
        if c == "form_call_coefs" and co:
            u = r.choice(co)
            w = self.call("ufl.Coefficient", self.ref(self._space_of(u)), kind="coef")
            if w is None:
                return None
            out = self.new()
            if self.emit(["meth", out, F, "__call__", [], {"coefficients": ["d", [[self.ref(u), self.ref(w)]]]}], keep_failed=kf, kind="form"):
                return out
            return None
        if c == "system":
            out = self.new()
            if not self.emit(["call", out, "ufl.system", [F]], keep_failed=kf, kind="tuple"):
                return None
            a, b = self.new(), self.new()
            self.emit(["unpack", None, self.ref(out), [a, b]], keep_failed=kf)
            for s in (a, b):
                if s in self.node.slots:
                    self.info[s] = self.describe(self.node.slots[s], "form")
            return a if a in self.node.slots and isinstance(self.obj(a), Form) else None
        if c == "extract_blocks":
            return self.call("ufl.extract_blocks", F, kind="blocks", keep_failed=kf)
        if c == "pickle":
            out = self.new()
            if self.emit(["roundtrip", out, fslot, "pickle"], kind="form"):
                return out
            return None
        return None

    def _space_of(self, coef_slot):
        """Slot of the function space a coefficient was built on."""
        for op in self.ops:
            if op[0] == "call" and op[1] == coef_slot and op[2] in ("ufl.Coefficient", "sim.userclasses.Function"):
                return op[3][0][1]
        return None

    # ---------------------------------------------------------------- programs
    def foreign_objects(self):
        """Objects created with explicit ids / counts, the way unpickling re-creates the
        objects of another process (noise programs only)."""
        r = self.rng
        for M in self.meshes:
            for _ in range(r.randint(1, 4)):
                k = r.choice([0, 0, 1, 2, 3, 5, 9, 10, 11, 50, 99, 100])
                w = r.randrange(6)
                if w == 0:
                    ce = self.elem("Lagrange", M["cell"], 1, (M["gdim"],))
                    self.call("ufl.Mesh", self.ref(ce), kind="mesh", ufl_id=k)
                elif w == 1 and M["spaces"]:
                    self.call("ufl.Coefficient", self.ref(r.choice(M["spaces"])), kind="coef", count=k)
                elif w == 2:
                    self.call("ufl.Constant", self.ref(M["slot"]), kind="const", count=k)
                elif w == 3:
                    self.call("ufl.Index", kind="index", count=k)
                elif w == 4 and M["terms"]:
                    x = M.get("x")
                    if x is not None:
                        self.call("operator.getitem", self.ref(x), r.choice([True, ["np", "int64", 0], ["np", "int64", 1]]))
                else:
                    self.call("ufl.classes.Label", count=k)

    def program(self):
        """A build program: environment, terminals, forms, derived forms."""
        r = self.rng
        self.env()
        if self.cfg.get("foreign"):
            self.foreign_objects()
        nforms = self.cfg.get("n_forms") or r.randint(1, 3)
        depth = self.cfg.get("depth") or r.choice([2, 3, 3, 4])
        for _ in range(nforms):
            M = r.choice([m_ for m_ in self.meshes if not m_.get("msq")])
            if r.random() < self.fam.get("mesh_sequence", float(os.environ.get("VERIF_MSQ_P", "0.06"))):
                self.mesh_sequence_form()
            elif self.fam.get("mixed_space") and r.random() < self.fam["mixed_space"]:
                self.mfs_form(M)
            elif self.fam.get("shape_derivative") and r.random() < self.fam["shape_derivative"]:
                self.shape_derivative_form(M)
            elif self.fam.get("flat_form") and r.random() < self.fam["flat_form"]:
                self.flat_form(M)
            else:
                self.form(M, r.choice([0, 1, 1, 2, 2]), depth)
        nder = self.cfg.get("n_derived")
        if nder is None:
            nder = r.randint(0, 4)
        renumbered = self.renumbered
        for _ in range(nder):
            if not self.forms:
                break
            f, rank, mi = r.choice(self.forms)
            n0 = len(self.ops)
            d = self.derive(f, rank, self.meshes[mi], keep_failed=self.cfg.get("keep_failed", False))
            # compute_form_data / renumber_indices / strip_terminal_data put indices (and, with
            # do_replace_functions, coefficients) with canonical explicit counts 0..n-1 into
            # their result: such a form lives in its own numbering and is never combined with
            # forms that hold automatically counted objects (explicit counts that collide with
            # automatic ones are outside C12, DESIGN 4.1 and 10.8)
            if d is not None and (f in renumbered or any(o[0] == "call" and o[2] in CANONICAL_NUMBERING for o in self.ops[n0:])):
                renumbered.add(d)
            if d is not None and d in self.node.slots and isinstance(self.obj(d), Form):
                try:
                    rk = len(self.obj(d).arguments())
                except BaseException:  # noqa: B036
                    continue
                self.derived.append((d, rk, mi))
                if r.random() < 0.5 and d not in renumbered:
                    self.forms.append((d, rk, mi))
        # combinations of forms of equal rank on one mesh (built and derived ones, early and
        # late ones): the relative creation order of everything they contain enters one signature
        allf = [f for f in dict.fromkeys([tuple(f) for f in self.forms] + [tuple(f) for f in self.derived]) if f[0] not in renumbered]
        allf = [f for f in allf if not any(o[0] == "call" and o[1] == f[0] and o[2] in CANONICAL_NUMBERING for o in self.ops)]
        for _ in range(self.cfg.get("n_combined", r.randint(0, 2))):
            if len(allf) < 2:
                break
            a = r.choice(allf)
            mates = [b for b in allf if b[0] != a[0] and b[1] == a[1] and b[2] == a[2]]
            if not mates:
                continue
            b = r.choice(mates)
            c = self.call("operator." + r.choice(["add", "sub"]), self.ref(a[0]), self.ref(b[0]), kind="form", keep_failed=self.cfg.get("keep_failed", False))
            if c is not None and c in self.node.slots and isinstance(self.obj(c), Form):
                self.derived.append((c, a[1], a[2]))
        return self.result()

    # ---------------------------------------------------------------- C27 / C13 pools
    EXPR_ALGS = [
        "ufl.algorithms.expand_derivatives",
        "ufl.algorithms.apply_algebra_lowering.apply_algebra_lowering",
        "ufl.algorithms.renumbering.renumber_indices",
        "ufl.algorithms.remove_complex_nodes.remove_complex_nodes",
        "ufl.algorithms.strip_variables",
        "ufl.algorithms.estimate_total_polynomial_degree",
        "ufl.algorithms.extract_coefficients",
        "ufl.algorithms.extract_arguments",
        "ufl.algorithms.apply_geometry_lowering.apply_geometry_lowering",
        "ufl.algorithms.apply_function_pullbacks.apply_function_pullbacks",
        "ufl.algorithms.tree_format",
        "ufl.algorithms.remove_component_tensors.remove_component_tensors",
        "ufl.algorithms.apply_restrictions.apply_restrictions",
        "ufl.algorithms.change_to_reference_grad",
        "ufl.algorithms.extract_elements",
        "ufl.algorithms.extract_unique_elements",
        "ufl.formatting.ufl2unicode.ufl2unicode",
        "builtins.str",
        "builtins.repr",
        "builtins.hash",
    ]

    def expr_step(self, M, e, kf):
        """One public algorithm / operator applied to a pool expression."""
        r = self.rng
        E = self.ref(e)
        k = r.randrange(12)
        if k <= 4:
            return self.call(r.choice(self.EXPR_ALGS), E, keep_failed=kf, kind="result")
        if k == 5:
            a = self.call("ufl.algorithms.apply_algebra_lowering.apply_algebra_lowering", E, keep_failed=kf)
            if a is None:
                return None
            b = self.call("ufl.algorithms.apply_derivatives.apply_derivatives", self.ref(a), keep_failed=kf)
            if b is None:
                return a
            if r.random() < 0.5:
                return self.call("ufl.algorithms.expand_indices", self.ref(b), keep_failed=kf) or b
            return b
        if k == 6 and M["coefs"]:
            u = r.choice(M["coefs"])
            w = self.call("ufl.Coefficient", self.ref(self._space_of(u)), kind="coef")
            if w is None:
                return None
            mapping = self.new()
            if not self.emit(["lit", mapping, ["d", [[self.ref(u), self.ref(w)]]]], kind="mapping"):
                return None
            self.dicts.append(mapping)
            return self.call("ufl.replace", E, self.ref(mapping), keep_failed=kf)
        if k == 7 and M["coefs"]:
            u = r.choice(M["coefs"])
            d = self.call("ufl.derivative", E, self.ref(u), keep_failed=kf)
            if d is None:
                return None
            return self.call("ufl.algorithms.expand_derivatives", self.ref(d), keep_failed=kf) or d
        if k == 8:
            others = [x for x in self.exprs if x != e]
            if others:
                self.emit(["cmp", None, e, r.choice(others)])
            self.emit(["cmp", None, e, e])
            return None
        if k == 9:
            members = r.sample(self.exprs, min(len(self.exprs), r.randint(1, 4)))
            self.emit(["inset", None, e, members])
            return None
        if k == 10:
            out = self.new()
            if self.emit(["roundtrip", out, e, r.choice(["pickle", "evalrepr"])], keep_failed=kf):
                return out
            return None
        # build a new expression on top (shares the DAG)
        if r.random() < 0.35:
            # idempotent-looking re-application of the root operator (constructors that
            # simplify by returning an existing object)
            out = self.call("sim.ops.reapply_root", E, keep_failed=False)
            if out is not None:
                return out
        f = r.choice(["operator.neg", "ufl.algebra.Abs", "ufl.grad", "ufl.transpose", "ufl.variable", "ufl.conj", "ufl.real", "ufl.imag", "ufl.sym", "ufl.algebra.Abs"])
        return self.call(f, E, keep_failed=False)

    def form_step(self, f, rank, M, kf):
        r = self.rng
        k = r.randrange(10)
        if M.get("msq") and k >= 8:
            k = r.randrange(8)
        if k <= 5:
            return self.derive(f, rank, M, keep_failed=kf)
        if k == 6 and r.random() < 0.3:
            # the public signature function with the numbering of a larger form
            others = [x[0] for x in self.forms if x[0] != f]
            if others:
                self.call("sim.ops.signature_in_context", self.ref(f), self.ref(r.choice(others)), keep_failed=kf, kind="result")
            return None
        if k == 6 and r.random() < 0.35:
            # read-only accessors of a form (each fills some lazy cache)
            self.emit(["meth", self.new(), self.ref(f), r.choice(["coefficient_numbering", "constant_numbering", "terminal_numbering", "domain_numbering", "subdomain_data", "ufl_domains", "ufl_domain", "constants", "geometric_dimension", "max_subdomain_ids", "base_form_operators", "empty", "ufl_cell", "integrals"]), []], keep_failed=True)
            return None
        if k == 6:
            self.emit(["obs", None, r.choice(["sig", "hash", "args", "coeffs", "consts", "meta", "repr", "str", "rank"]), f])
            return None
        if k == 7:
            others = [x[0] for x in self.forms if x[0] != f]
            if others:
                self.emit(["cmp", None, f, r.choice(others)])
            return None
        if k == 8 and r.random() < 0.4:
            # an ill-posed form (nonlinear in an argument): compute_form_data runs every
            # lowering pass and raises only in the final arity check
            v = M["v"]
            vs = v
            if self.shape(v):
                vs = self.call("operator.getitem", self.ref(v), ["t"] + [0] * len(self.shape(v)))
            if vs is not None:
                bad = self.call(r.choice(["ufl.sin", "ufl.exp", "ufl.algebra.Abs"]), self.ref(vs))
                if r.random() < 0.5 and bad is not None:
                    bad = self.call("operator.mul", self.ref(bad), self.ref(vs))
                if bad is not None:
                    kind, m = self.measure(M, kinds=("dx",))
                    if m is not None:
                        bf = self.call("operator.mul", self.ref(bad), self.ref(m), kind="form")
                        if bf is not None:
                            g = self.call("operator.add", self.ref(f), self.ref(bf), kind="form", keep_failed=True)
                            if g is not None:
                                self.call("sim.ops.form_data", self.ref(g), kind="formdata", keep_failed=True, **self.cfd_options())
            return None
        if k == 9 and r.random() < 0.35 and len(M["spaces"]) >= 2 and M.get("v") is not None:
            # a form whose test functions clash (same number, different spaces): every
            # analysis of it (arguments(), signature(), hash) raises part-way
            V2 = [sp for sp in M["spaces"] if sp != M["V"]]
            v2 = self.call("ufl.TestFunction", self.ref(r.choice(V2)), kind="arg")
            kind, m = self.measure(M, kinds=("dx",))
            if v2 is not None and m is not None:
                def sc(x):
                    sh = self.shape(x)
                    return self.call("operator.getitem", self.ref(x), ["t"] + [0] * len(sh)) if sh else x

                a, b = sc(M["v"]), sc(v2)
                lit = self.lit()
                if a is not None and b is not None:
                    e = self.call("operator.add", self.ref(a), self.ref(b))
                    if e is not None and lit is not None and self.shape(lit) == ():
                        e = self.call("operator.mul", self.ref(lit), self.ref(e)) or e
                    bf = self.call("operator.mul", self.ref(e), self.ref(m), kind="form") if e is not None else None
                    if bf is not None:
                        g = self.call("operator.add", self.ref(f), self.ref(bf), kind="form", keep_failed=True) if rank == 1 else bf
                        for what in r.sample(["sig", "hash", "args", "coeffs", "str"], 2):
                            self.emit(["obs", None, what, g if g is not None else bf], keep_failed=True)
            return None
        if k == 9 and r.random() < 0.3 and self.cfg.get("numeric_twins", True):
            # a twin of the form whose measure data is numerically equal but of another type
            # (degree 2 / 2.0, subdomain id 1 / True), then a comparison between the two
            e = self.scalar(M, 2)
            if e is not None:
                tw = []
                va, vb = r.choice([(2, 2.0), (1, True), (3, 3.0)])
                usesid = r.random() < 0.4
                for v_ in (va, vb):
                    kw = {"domain": self.ref(M["slot"])}
                    if usesid:
                        kw["subdomain_id"] = v_
                    else:
                        md = self.new()
                        if not self.emit(["lit", md, {"quadrature_degree": v_}], kind="dict"):
                            break
                        kw["metadata"] = self.ref(md)
                    m = self.call("ufl.Measure", "dx", kind="measure", **kw)
                    g = self.call("operator.mul", self.ref(e), self.ref(m), kind="form") if m is not None else None
                    if g is not None:
                        tw.append(g)
                if len(tw) == 2:
                    for g in tw:
                        self.forms.append((g, 0, self.meshes.index(M)))
                    self.emit(["cmp", None, tw[0], tw[1]])
                    self.emit(["cmp", None, tw[1], tw[0]])
            return None
        if k == 8 and r.random() < 0.3:
            # the low-level route: group the integrals, then construct FormData directly
            G = self.call("sim.ops.grouped_form", self.ref(f), kind="form", keep_failed=kf)
            if G is not None and G in self.node.slots and isinstance(self.obj(G), Form):
                self.forms.append((G, rank, self.meshes.index(M)))
                kw = {}
                for flag in ("do_replace_functions", "do_apply_restrictions", "do_apply_default_restrictions", "complex_mode"):
                    if r.random() < 0.5:
                        kw[flag] = r.random() < 0.7
                fd = self.call("sim.ops.formdata_lowlevel", self.ref(G), kind="formdata", keep_failed=kf, **kw)
                if fd is not None:
                    self.emit(["call", self.new(), "sim.ops.fd_touch", [self.ref(fd)]], keep_failed=kf)
            return None
        if k == 8:
            fd = self.call("sim.ops.form_data", self.ref(f), kind="formdata", keep_failed=kf, **self.cfd_options())
            if fd is not None:
                out = self.new()
                self.emit(["call", out, "sim.ops.fd_touch", [self.ref(fd)]], keep_failed=kf)
            return None
        return self.call(
            r.choice(
                [
                    "ufl.algorithms.estimate_total_polynomial_degree",
                    "ufl.algorithms.extract_coefficients",
                    "ufl.algorithms.extract_arguments",
                    "ufl.algorithms.validate_form",
                    "ufl.algorithms.compute_form_arities",
                    "ufl.algorithms.extract_elements",
                    "sim.ops.sort_elements_of",
                    "ufl.algorithms.tree_format",
                    "ufl.energy_norm",
                    "ufl.functional",
                    "builtins.str",
                ]
            ),
            self.ref(f),
            keep_failed=kf,
            kind="result",
        )

    def bfo_forms(self):
        """Forms whose integrands contain base form operators (ExternalOperator,
        Interpolate); their derivatives go through the BaseFormOperator rule-sets."""
        r = self.rng
        M = self.meshes[0]
        scal = [c for c in M["coefs"] if self.shape(c) == ()]
        if not scal or M.get("v") is None:
            return
        u = r.choice(scal)
        V = self._space_of(u)
        v = M["v"]
        vs = v if not self.shape(v) else self.call("operator.getitem", self.ref(v), ["t"] + [0] * len(self.shape(v)))
        if vs is None:
            return
        N = self.call("ufl.ExternalOperator", self.ref(u), function_space=self.ref(V))
        ops_ = [N]
        if r.random() < 0.6:
            ops_.append(self.call("ufl.Interpolate", self.ref(u), self.ref(V)))
        for X in ops_:
            if X is None:
                continue
            e = self.call("operator.mul", self.ref(X), self.ref(vs))
            if e is not None and r.random() < 0.5:
                e = self.call("operator.mul", self.ref(u), self.ref(e)) or e
            kind, m = self.measure(M, kinds=("dx",))
            F = self.call("operator.mul", self.ref(e), self.ref(m), kind="form") if e is not None and m is not None else None
            if F is None:
                continue
            self.exprs.append(X)
            self.forms.append((F, 1, 0))
            for fn in r.sample(["ufl.algorithms.extract_base_form_operators", "ufl.algorithms.expand_derivatives", "deriv", "bfos"], 2):
                if fn == "deriv":
                    d = self.call("ufl.derivative", self.ref(F), self.ref(u), kind="form", keep_failed=True)
                    if d is not None:
                        self.call("ufl.algorithms.expand_derivatives", self.ref(d), kind="form", keep_failed=True)
                elif fn == "bfos":
                    self.emit(["meth", self.new(), self.ref(F), "base_form_operators", []], keep_failed=True)
                else:
                    self.call(fn, self.ref(F), keep_failed=True, kind="result")

    def pool_program(self):
        """Environment + forms, then a seeded sequence of public algorithm / operator
        steps over the pool (results join the pool)."""
        r = self.rng
        self.env()
        for _ in range(self.cfg.get("n_forms") or r.randint(1, 3)):
            M = r.choice(self.meshes)
            q = r.random()
            if q < 0.1:
                self.shape_derivative_form(M)
            elif q < 0.2:
                self.flat_form(M)
            else:
                self.form(M, r.choice([0, 1, 1, 2, 2]), self.cfg.get("depth") or r.choice([2, 3, 3]))
        if r.random() < self.cfg.get("msq_p", 0.1):
            self.mesh_sequence_form()
        if r.random() < self.cfg.get("bfo_form_p", 0.15):
            self.bfo_forms()
        self.baseforms = []
        if r.random() < self.cfg.get("formsum_p", 0.15):
            # base forms that are sums of a form and a cofunction
            M = self.meshes[0]
            dual = self.new()
            if self.emit(["meth", dual, self.ref(M["V"]), "dual", []], kind="space"):
                c1 = self.call("ufl.Cofunction", self.ref(dual), kind="baseform")
                c2 = self.call("ufl.Cofunction", self.ref(dual), kind="baseform")
                L = None
                for f, rank, mi in self.forms:
                    if rank == 1 and mi == 0:
                        L = f
                        break
                if L is None:
                    L = self.form(M, 1, 2, nint=1)
                if L is not None and c1 is not None:
                    S = self.call("operator.add", self.ref(L), self.ref(c1), kind="baseform")
                    if S is not None:
                        self.baseforms = [x for x in (S, c1, c2) if x is not None]
        self.bf_env = None
        if r.random() < self.cfg.get("matrix_p", float(os.environ.get("VERIF_MATRIX_P", "0.15"))):
            # assembled-operator base forms: Matrix, Action(Matrix, coefficient), Adjoint
            M = self.meshes[0]
            V = M["V"]
            dual = self.new()
            mat = self.call("ufl.Matrix", self.ref(V), self.ref(V), kind="baseform")
            uV = self.call("ufl.Coefficient", self.ref(V), kind="coef")
            if mat is not None and uV is not None and self.emit(["meth", dual, self.ref(V), "dual", []], kind="space"):
                A = self.call("ufl.Action", self.ref(mat), self.ref(uV), kind="baseform")
                arg0 = self.call("ufl.Argument", self.ref(V), 0, kind="arg")
                coarg = self.call("ufl.Coargument", self.ref(dual), 0, kind="arg")
                adj = self.call("ufl.Adjoint", self.ref(mat), kind="baseform")
                self.bf_env = {"arg": arg0, "coarg": coarg, "u": uV}
                self.baseforms += [x for x in (mat, A, adj) if x is not None]
        setup_len = len(self.ops)
        nsteps = self.cfg.get("n_steps") or r.randint(3, 14)
        abort_p = self.cfg.get("abort_p", 0.5)
        marks = []  # op index where each step starts + its input slots
        for _ in range(nsteps):
            if self.poisoned:
                break
            kf = r.random() < abort_p
            start = len(self.ops)
            if self.baseforms and r.random() < 0.45:
                S = r.choice(self.baseforms)
                other = r.choice(self.baseforms)
                w = r.choice(["add", "sub", "radd", "neg", "scale", "scale", "addself", "hash", "eq", "alg", "alg"] + (["action_arg", "action_coarg", "action_fn", "adjoint", "action_u"] if self.bf_env else []))
                if w == "add":
                    out = self.call("operator.add", self.ref(S), self.ref(other), keep_failed=kf, kind="baseform")
                elif w == "sub":
                    out = self.call("operator.sub", self.ref(S), self.ref(other), keep_failed=kf, kind="baseform")
                elif w == "radd":
                    out = self.call("operator.add", self.ref(other), self.ref(S), keep_failed=kf, kind="baseform")
                elif w == "neg":
                    out = self.call("operator.neg", self.ref(S), keep_failed=kf, kind="baseform")
                elif w == "scale":
                    out = self.call("operator.mul", r.choice([2, 0.5, -1, 1, 1.0]), self.ref(S), keep_failed=kf, kind="baseform")
                elif w == "alg":
                    # public algorithms that accept base forms; components may vanish
                    co = self.meshes[0]["coefs"]
                    q = r.randrange(6)
                    if q == 0 and co:
                        d = self.call("ufl.derivative", self.ref(S), self.ref(r.choice(co)), keep_failed=kf, kind="baseform")
                        out = d
                        if d is not None and r.random() < 0.7:
                            out = self.call(r.choice(["ufl.algorithms.expand_derivatives", "ufl.algorithms.apply_derivatives.apply_derivatives"]), self.ref(d), keep_failed=kf, kind="baseform") or d
                    elif q == 1:
                        out = self.call(r.choice(["ufl.algorithms.expand_derivatives", "ufl.algorithms.apply_algebra_lowering.apply_algebra_lowering", "ufl.algorithms.remove_complex_nodes.remove_complex_nodes"]), self.ref(S), keep_failed=kf, kind="baseform")
                    elif q == 2 and co:
                        u_ = r.choice(co)
                        w_ = self.call("ufl.Coefficient", self.ref(self._space_of(u_)), kind="coef")
                        mp = self.new()
                        out = None
                        if w_ is not None and self.emit(["lit", mp, ["d", [[self.ref(u_), self.ref(w_)]]]], kind="mapping"):
                            out = self.call("ufl.replace", self.ref(S), self.ref(mp), keep_failed=kf, kind="baseform")
                    elif q == 3:
                        # replace a cofunction component by a zero base form: the component vanishes
                        cof = [b for b in self.baseforms if type(self.obj(b)).__name__ == "Cofunction"]
                        out = None
                        if cof and self.meshes[0].get("v") is not None:
                            z = self.call("ufl.ZeroBaseForm", ["t", self.ref(self.meshes[0]["v"])], kind="baseform")
                            mp = self.new()
                            if z is not None and self.emit(["lit", mp, ["d", [[self.ref(r.choice(cof)), self.ref(z)]]]], kind="mapping"):
                                out = self.call("ufl.replace", self.ref(S), self.ref(mp), keep_failed=kf, kind="baseform")
                    elif q == 4:
                        out = self.call("ufl.algorithms.map_integrands.map_integrands", ["fn", r.choice(["ufl.algorithms.renumbering.renumber_indices", "sim.ops.identity", "sim.ops.zero_like"])], self.ref(S), keep_failed=kf, kind="baseform")
                    else:
                        self.emit(["obs", None, r.choice(["args", "coeffs", "repr", "str"]), S])
                        out = None
                elif w == "action_arg" and self.bf_env["arg"] is not None:
                    out = self.call("ufl.Action", self.ref(S), self.ref(self.bf_env["arg"]), keep_failed=kf, kind="baseform")
                elif w == "action_coarg" and self.bf_env["coarg"] is not None:
                    out = self.call("ufl.Action", self.ref(self.bf_env["coarg"]), self.ref(S), keep_failed=kf, kind="baseform")
                elif w == "action_fn":
                    x = r.choice([self.bf_env["arg"], self.bf_env["u"], self.bf_env["coarg"]])
                    kw = {"derivatives_expanded": True} if r.random() < 0.5 else {}
                    out = self.call("ufl.action", self.ref(S), self.ref(x), keep_failed=kf, kind="baseform", **kw) if x is not None else None
                elif w == "action_u":
                    out = self.call("ufl.Action", self.ref(S), self.ref(self.bf_env["u"]), keep_failed=kf, kind="baseform")
                elif w == "adjoint":
                    out = self.call(r.choice(["ufl.adjoint", "ufl.Adjoint"]), self.ref(S), keep_failed=kf, kind="baseform")
                elif w == "addself":
                    out = self.call("operator.add", self.ref(S), self.ref(S), keep_failed=kf, kind="baseform")
                elif w == "hash":
                    self.emit(["obs", None, "hash", S])
                    out = None
                else:
                    self.emit(["cmp", None, S, other])
                    out = None
                inputs = [S, other]
                if out is not None and out in self.node.slots and isinstance(self.obj(out), BaseForm) and not isinstance(self.obj(out), Form):
                    self.baseforms.append(out)
            elif self.forms and (r.random() < 0.6 or not self.exprs):
                f, rank, mi = r.choice(self.forms)
                out = self.form_step(f, rank, self.meshes[mi], kf)
                inputs = [f]
                if out is not None and out in self.node.slots and isinstance(self.obj(out), Form):
                    try:
                        rk = len(self.obj(out).arguments())
                        self.forms.append((out, rk, mi))
                    except BaseException:  # noqa: B036
                        pass
            elif self.exprs:
                e = r.choice(self.exprs)
                M = r.choice([m_ for m_ in self.meshes if not m_.get("msq")])
                out = self.expr_step(M, e, kf)
                inputs = [e]
                if out is not None and out in self.node.slots and isinstance(self.obj(out), Expr):
                    self.exprs.append(out)
            else:
                continue
            if len(self.ops) > start:
                marks.append([start, len(self.ops), inputs])
        res = self.result()
        res["setup_len"] = setup_len
        res["steps"] = marks
        res["dicts"] = self.dicts
        return res

    # ---------------------------------------------------------------- C13: twins and near-duplicates
    SWAPS = {
        "ufl.sin": "ufl.cos",
        "ufl.cos": "ufl.sin",
        "ufl.exp": "ufl.ln",
        "operator.add": "operator.sub",
        "operator.sub": "operator.add",
        "ufl.lt": "ufl.le",
        "ufl.gt": "ufl.ge",
        "ufl.eq": "ufl.ne",
        "ufl.inner": "ufl.dot",
        "ufl.max_value": "ufl.min_value",
        "ufl.min_value": "ufl.max_value",
        "ufl.grad": "ufl.nabla_grad",
        "ufl.sym": "ufl.skew",
        "ufl.tr": "ufl.det",
        "ufl.avg": "ufl.jump",
        "ufl.real": "ufl.imag",
        "ufl.elem_mult": "ufl.elem_div",
    }
    STOP_KINDS = ("elem", "mesh", "space", "coef", "const", "arg", "geo", "index")

    @staticmethod
    def refs_of(x, acc=None):
        acc = [] if acc is None else acc
        if isinstance(x, list):
            if len(x) == 2 and x[0] == "$" and isinstance(x[1], int):
                acc.append(x[1])
            else:
                for y in x:
                    Planner.refs_of(y, acc)
        elif isinstance(x, dict):
            for y in x.values():
                Planner.refs_of(y, acc)
        return acc

    @staticmethod
    def sub_refs(x, mapping):
        if isinstance(x, list):
            if len(x) == 2 and x[0] == "$" and isinstance(x[1], int):
                return ["$", mapping.get(x[1], x[1])]
            return [Planner.sub_refs(y, mapping) for y in x]
        if isinstance(x, dict):
            return {k: Planner.sub_refs(v, mapping) for k, v in x.items()}
        return x

    def producers(self):
        prod = {}
        for i, op in enumerate(self.ops):
            if op[0] in ("call", "meth", "lit", "attr") and isinstance(op[1], int):
                prod[op[1]] = i
        return prod

    def closure(self, target, prod):
        """Indices of the ops that build ``target`` from terminals / environment."""
        need, seen, stack = set(), set(), [target]
        while stack:
            s_ = stack.pop()
            if s_ in seen or s_ not in prod:
                continue
            seen.add(s_)
            kind = self.info.get(s_, {}).get("k")
            if kind in self.STOP_KINDS and s_ != target:
                continue
            i = prod[s_]
            need.add(i)
            stack.extend(self.refs_of(self.ops[i][2:]))
        return sorted(need)

    def mutate_cands(self, op, neardup):
        """All single-field changes of one op: list of (kind, changed op)."""
        r = self.rng
        op = [x for x in op]
        cands = []
        if op[0] == "lit" and isinstance(op[2], dict):
            d = op[2]
            ks = list(d)
            if len(ks) >= 2:
                cands.append(("reorder", ["lit", op[1], {k: d[k] for k in reversed(ks)}]))
            if ks:
                k0 = ks[0]
                v = d[k0]
                d2 = dict(d)
                d2[k0] = (v + 1) if isinstance(v, (int, float)) and not isinstance(v, bool) else "other"
                cands.append(("value", ["lit", op[1], d2]))
            d3 = dict(d)
            d3["extra"] = 1
            cands.append(("addkey", ["lit", op[1], d3]))
            for kk, vv in d.items():
                if isinstance(vv, (int, float)) and not isinstance(vv, bool):
                    cands.append(("strvalue", ["lit", op[1], dict(d, **{kk: str(vv)})]))
                elif isinstance(vv, list) and (not vv or vv[0] != "t"):
                    cands.append(("list2tuple", ["lit", op[1], dict(d, **{kk: ["t"] + list(vv)})]))
                elif vv is None:
                    cands.append(("nonestr", ["lit", op[1], dict(d, **{kk: "None"})]))
        if op[0] == "call":
            f, args = op[2], op[3]
            kw = op[4] if len(op) > 4 else {}
            if f in self.SWAPS:
                cands.append(("swapfn", ["call", op[1], self.SWAPS[f], args] + ([kw] if kw else [])))
            if f in ("operator.add", "operator.mul") and len(args) == 2:
                cands.append(("commute", ["call", op[1], f, [args[1], args[0]]]))
            if f in ("ufl.as_vector", "ufl.as_tensor", "ufl.as_matrix") and args and isinstance(args[0], list) and args[0] and not isinstance(args[0][0], str):
                comps = args[0]
                if len(comps) > 1:
                    cands.append(("listshorter", ["call", op[1], f, [comps[:-1]] + args[1:]] + ([kw] if kw else [])))
                cands.append(("listlonger", ["call", op[1], f, [comps + [comps[r.randrange(len(comps))]]] + args[1:]] + ([kw] if kw else [])))
            for i, a in enumerate(args):
                if isinstance(a, bool):
                    continue
                if isinstance(a, int):
                    for d in (1, -1):
                        cands.append(("int", ["call", op[1], f, args[:i] + [a + d] + args[i + 1 :]] + ([kw] if kw else [])))
                    cands.append(("int2float", ["call", op[1], f, args[:i] + [float(a)] + args[i + 1 :]] + ([kw] if kw else [])))
                elif isinstance(a, float):
                    cands.append(("float", ["call", op[1], f, args[:i] + [a * 2 + 1] + args[i + 1 :]] + ([kw] if kw else [])))
                    if a == int(a):
                        cands.append(("float2int", ["call", op[1], f, args[:i] + [int(a)] + args[i + 1 :]] + ([kw] if kw else [])))
                elif isinstance(a, list) and a and a[0] == "t" and any(isinstance(x, int) and not isinstance(x, bool) for x in a[1:]):
                    j = r.choice([j for j in range(1, len(a)) if isinstance(a[j], int) and not isinstance(a[j], bool)])
                    a2 = a[:j] + [a[j] + r.choice([1, -1])] + a[j + 1 :]
                    cands.append(("tuple", ["call", op[1], f, args[:i] + [a2] + args[i + 1 :]] + ([kw] if kw else [])))
                elif isinstance(a, list) and len(a) == 2 and a[0] == "$" and a[1] in neardup:
                    for nd in neardup[a[1]]:
                        cands.append(("leaf", ["call", op[1], f, args[:i] + [["$", nd]] + args[i + 1 :]] + ([kw] if kw else [])))
            if f == "ufl.Measure":
                k2 = {"dx": "ds", "ds": "dx", "dS": "dx"}.get(args[0], "dx")
                cands.append(("mkind", ["call", op[1], f, [k2], kw]))
                sid = kw.get("subdomain_id", "everywhere")
                for s2 in (1, 2, ["t", 1, 2], "everywhere", "otherwise", ["t", 2, 1]):
                    if s2 != sid:
                        cands.append(("sid", ["call", op[1], f, args, dict(kw, subdomain_id=s2)]))
                if "metadata" in kw:
                    k3 = dict(kw)
                    del k3["metadata"]
                    cands.append(("nomd", ["call", op[1], f, args, k3]))
                else:
                    cands.append(("md", ["call", op[1], f, args, dict(kw, metadata={"quadrature_degree": 2})]))
        if op[0] == "meth" and op[3] == "__call__" and op[4] and op[4][0] in ("+", "-"):
            cands.append(("side", ["meth", op[1], op[2], "__call__", ["-" if op[4][0] == "+" else "+"]]))
        return cands

    def mutate_op(self, op, neardup):
        cands = self.mutate_cands(op, neardup)
        if not cands:
            return None, None
        return self.rng.choice(cands)

    def twin(self, target, prod, neardup, mutate):
        """Re-build ``target`` from the same terminals with fresh operator objects;
        optionally with exactly one op changed.  Returns (new slot, tag) or (None, None)."""
        r = self.rng
        idx = self.closure(target, prod)
        if not idx:
            return None, None
        mpos, mkind = None, None
        if mutate:
            # choose the kind of change uniformly first, then where to apply it
            by_kind = {}
            for i in idx:
                for what, _ in self.mutate_cands(self.ops[i], neardup):
                    by_kind.setdefault(what, set()).add(i)
            if not by_kind:
                return None, None
            mkind = r.choice(sorted(by_kind))
            mpos = r.choice(sorted(by_kind[mkind]))
        mapping = {}
        tag = "equal"
        for i in idx:
            op = self.ops[i]
            new = self.new()
            op2 = [op[0], new] + self.sub_refs(op[2:], mapping)
            if i == mpos:
                cands = [c for c in self.mutate_cands(op2, neardup) if c[0] == mkind]
                if cands:
                    what, op2 = r.choice(cands)
                    tag = "near:" + what
            kind = self.info.get(op[1], {}).get("k")
            if not self.emit(op2, kind=kind):
                return None, None
            mapping[op[1]] = new
        if mutate and not tag.startswith("near"):
            return None, None
        return mapping.get(target), tag

    def terminal_neardups(self):
        """Counted terminals / meshes / spaces re-created with the *same* explicit count or
        id and one field changed (or none): the pairs for which an __eq__ that compares a
        subset of its data shows.  (The realistic route to equal counts is crash/restart +
        unpickling; explicit count= is the same public constructor argument.)"""
        r = self.rng
        nd = {}
        pairs = []
        for M in self.meshes:
            g = M["gdim"]
            others = [m for m in self.meshes if m is not M]
            # an equal-but-distinct space object and a different space on the same mesh
            for c in M["coefs"]:
                cnt = self.obj(c).count()
                sp = self._space_of(c)
                choices = [s for s in M["spaces"] if s != sp]
                for m2 in others:
                    choices += m2["spaces"][:1]
                opts = [("same", sp)] + [("space", s) for s in r.sample(choices, min(2, len(choices)))]
                spop = next((op for op in self.ops if op[0] == "call" and op[1] == sp and op[2] == "ufl.FunctionSpace"), None)
                if spop is not None and r.random() < 0.5:
                    # the same space up to its label
                    lab = (spop[4] if len(spop) > 4 else {}).get("label")
                    s3 = self.call("ufl.FunctionSpace", *spop[3], kind="space", label="c" if lab != "c" else "d")
                    if s3 is not None:
                        opts.append(("label", s3))
                for what, s2 in opts:
                    t = self.call("ufl.Coefficient", self.ref(s2), kind="coef", count=cnt)
                    if t is not None:
                        nd.setdefault(c, []).append(t)
                        pairs.append([c, t, "term:" + what])
            for c in M["consts"]:
                o = self.obj(c)
                cnt = o.count()
                sh = tuple(o.ufl_shape)
                shapes = [s for s in [(), (g,), (g, g), (g + 1,)] if s != sh]
                opts = [("same", M["slot"], sh), ("shape", M["slot"], r.choice(shapes))]
                if others:
                    opts.append(("domain", r.choice(others)["slot"], sh))
                for what, ms, sh2 in opts:
                    t = self.call("ufl.Constant", self.ref(ms), self.lit_tuple(sh2), kind="const", count=cnt)
                    if t is not None:
                        if sh2 == sh:
                            nd.setdefault(c, []).append(t)
                        pairs.append([c, t, "term:" + what])
            for which in ("v", "u"):
                a = M.get(which)
                if a is None:
                    continue
                o = self.obj(a)
                num, part = o.number(), o.part()
                V = M["V"]
                alt = [s for s in M["spaces"] if s != V]
                opts = [("same", V, num, part), ("part", V, num, 0 if part is None else None), ("part1", V, num, 1), ("number", V, num + 1, part)]
                if alt:
                    opts.append(("space", r.choice(alt), num, part))
                for what, sp, n2, p2 in opts:
                    t = self.call("ufl.Argument", self.ref(sp), n2, p2 if p2 is not None else ["none"], kind="arg")
                    if t is not None:
                        if what in ("same", "part", "part1", "number") or tuple(self.obj(t).ufl_shape) == tuple(o.ufl_shape):
                            nd.setdefault(a, []).append(t)
                        pairs.append([a, t, "term:" + what])
            # a mesh with the same id and another coordinate element; geometric quantities on it
            mid = self.obj(M["slot"]).ufl_id()
            ce2 = self.elem("Lagrange", M["cell"], 3, (g,))
            m2 = self.call("ufl.Mesh", self.ref(ce2), kind="mesh", ufl_id=mid)
            ce1 = None
            for op in self.ops:
                if op[0] == "call" and op[1] == M["slot"]:
                    ce1 = op[3][0]
            m3 = self.call("ufl.Mesh", ce1, kind="mesh", ufl_id=mid) if ce1 is not None else None
            for what, mm in (("mesh-elem", m2), ("mesh-same", m3)):
                if mm is None:
                    continue
                for gq in r.sample(M["geos"], min(3, len(M["geos"]))):
                    cname = type(self.obj(gq)).__name__
                    t = self.call("ufl." + cname, self.ref(mm), kind="geo")
                    if t is not None:
                        nd.setdefault(gq, []).append(t)
                        pairs.append([gq, t, "term:" + what])
        # variables: equal label and expression / other expression / other label
        for M in self.meshes[:1]:
            sc = [t for t in M["coefs"] + M["consts"] if self.shape(t) == ()]
            if len(sc) >= 2:
                k_ = r.choice([3, 9, 10, 41])
                L1 = self.call("ufl.classes.Label", kind="label", count=k_)
                L2 = self.call("ufl.classes.Label", kind="label", count=k_)
                L3 = self.call("ufl.classes.Label", kind="label", count=k_ + 1)
                if None not in (L1, L2, L3):
                    v1 = self.call("ufl.classes.Variable", self.ref(sc[0]), self.ref(L1))
                    for what, e_, L_ in (("same", sc[0], L2), ("var-expr", sc[1], L1), ("var-label", sc[0], L3)):
                        v = self.call("ufl.classes.Variable", self.ref(e_), self.ref(L_))
                        if v1 is None or v is None:
                            continue
                        nd.setdefault(v1, []).append(v)
                        pairs.append([v1, v, "term:" + what])
                        a_ = self.call("operator.pow", self.ref(v1), 2)
                        b_ = self.call("operator.pow", self.ref(v), 2)
                        if a_ is not None and b_ is not None:
                            d1 = self.call("ufl.diff", self.ref(a_), self.ref(v1))
                            d2 = self.call("ufl.diff", self.ref(b_), self.ref(v))
                            if d1 is not None and d2 is not None:
                                pairs.append([d1, d2, "term:" + what + ":nested"])
        # the same mesh sequence given as a list and as a tuple; coefficients on it
        same = [m for m in self.meshes if m["cell"] == self.meshes[0]["cell"] and m["gdim"] == self.meshes[0]["gdim"] and not m.get("msq")]
        if len(same) >= 2 and r.random() < 0.7:
            ms = [self.ref(m["slot"]) for m in same[:2]]
            d1 = self.call("ufl.MeshSequence", ms, kind="mesh")
            d2 = self.call("ufl.MeshSequence", ["t"] + ms, kind="mesh")
            d3 = self.call("ufl.MeshSequence", list(reversed(ms)), kind="mesh")
            p1 = self.elem("Lagrange", same[0]["cell"], 1, ())
            me = self.call("sim.elements.MixedElem", [self.ref(p1), self.ref(p1)], kind="elem", make_cell_sequence=True)
            cs = []
            for what, d in (("same", d1), ("meshseq-tuple", d2), ("meshseq-order", d3)):
                if d is None or me is None:
                    continue
                V = self.call("ufl.FunctionSpace", self.ref(d), self.ref(me), kind="space")
                c = self.call("ufl.Coefficient", self.ref(V), kind="coef", count=77) if V is not None else None
                if c is not None:
                    cs.append((what, c))
            for what, c in cs[1:]:
                nd.setdefault(cs[0][1], []).append(c)
                pairs.append([cs[0][1], c, "term:" + what])
                w1 = self.call("operator.getitem", self.ref(cs[0][1]), 0)
                w2 = self.call("operator.getitem", self.ref(c), 0)
                if w1 is not None and w2 is not None:
                    pairs.append([w1, w2, "term:" + what + ":nested"])
        # literals
        lits = []
        for v in [0, 1, 1.0, ["c", 1.0, 0.0], 2, 2.0, -1, 0.0, ["c", 0.0, 0.0], 0.5, ["c", 0.5, 1.0], 0.1 + 0.2, 0.3, 1 / 3, 0.3333333333333333, 0.333333333333333, ["c", 1 / 3, 0.0]]:
            t = self.call("ufl.as_ufl", v)
            if t is not None:
                lits.append(t)
        # the same number arriving as Python int, bool and numpy scalar: as_ufl normalises, so
        # these are equal literals and must print and hash alike
        for py, others in ((1, [True, ["np", "int64", 1]]), (2, [["np", "int32", 2]]), (200, [["np", "int64", 200]]), (0.5, [["np", "float64", 0.5]])):
            t0 = self.call("ufl.as_ufl", py)
            for v in others:
                t1 = self.call("ufl.as_ufl", v)
                if t0 is not None and t1 is not None:
                    pairs.append([t0, t1, "lit:numtype"])
                    lits.append(t1)
        for sh in [(), (2,), (3,), (2, 2), (2, 3)]:
            t = self.call("ufl.classes.Zero", self.lit_tuple(sh))
            if t is not None:
                lits.append(t)
        # zeros that carry free indices, products whose factors differ only in the free
        # index / label they carry
        for M in self.meshes[:1]:
            vec = [t for t in M["coefs"] + [M["x"]] if len(self.shape(t)) == 1]
            if vec:
                v = vec[0]
                i = self.call("ufl.Index", kind="index")
                j = self.call("ufl.Index", kind="index")
                vi = self.call("operator.getitem", self.ref(v), self.ref(i))
                vj = self.call("operator.getitem", self.ref(v), self.ref(j))
                for q in (vi, vj):
                    if q is not None:
                        z = self.call("operator.mul", 0, self.ref(q))
                        if z is not None:
                            lits.append(z)
                # zeros that carry the *same* free index over different extents (one index object
                # used on vectors of different length in separate expressions)
                if i is not None:
                    sc = [t for t in M["coefs"] if self.shape(t) == ()][:1]
                    for n in (2, 3):
                        w = self.call("ufl.as_vector", [self.ref(sc[0]) if sc else 1.0] * n)
                        wi = self.call("operator.getitem", self.ref(w), self.ref(i)) if w is not None else None
                        z = self.call("operator.mul", 0, self.ref(wi)) if wi is not None else None
                        if z is not None:
                            lits.append(z)
                if vi is not None and vj is not None:
                    for t in (self.call("operator.mul", self.ref(vi), self.ref(vj)), self.call("operator.mul", self.ref(vj), self.ref(vi))):
                        if t is not None:
                            lits.append(t)
                            t2 = self.call("ufl.as_tensor", self.ref(t), ["t", self.ref(i), self.ref(j)])
                            if t2 is not None:
                                lits.append(t2)
                    zv = self.call("ufl.as_vector", [self.ref(self.call("operator.mul", 0, self.ref(vj))), self.ref(vj)]) if vj is not None else None
                    if zv is not None:
                        lits.append(zv)
            sc = [t for t in M["coefs"] if self.shape(t) == ()]
            if sc:
                a = self.call("ufl.variable", self.ref(sc[0]))
                b = self.call("ufl.variable", self.ref(sc[0]))
                if a is not None and b is not None:
                    for t in (self.call("operator.mul", self.ref(a), self.ref(b)), self.call("operator.mul", self.ref(b), self.ref(a))):
                        if t is not None:
                            lits.append(t)
        for d in (2, 3):
            for f in ("ufl.Identity", "ufl.PermutationSymbol"):
                t = self.call(f, d)
                if t is not None:
                    lits.append(t)
        for i in range(len(lits)):
            for j in range(i + 1, len(lits)):
                if r.random() < 0.05:
                    pairs.append([lits[i], lits[j], "lit"])
        return nd, pairs, lits

    def base_form_operators(self):
        """ExternalOperator / Interpolate nodes (expressions that carry non-operand data:
        derivatives, function space, argument slots) nested inside ordinary operators,
        with twins that differ only in that data."""
        r = self.rng
        pairs, pool = [], []
        for M in self.meshes[:1]:
            scal = [c for c in M["coefs"] if self.shape(c) == ()]
            if not scal:
                continue
            u = r.choice(scal)
            V = self._space_of(u)
            others = [sp for sp in M["spaces"] if sp != V and tuple(self.obj(sp).value_shape) == ()]
            base = self.call("ufl.ExternalOperator", self.ref(u), function_space=self.ref(V))
            if base is None:
                continue
            variants = [("bfo:same", {"function_space": self.ref(V)}), ("bfo:derivatives", {"function_space": self.ref(V), "derivatives": ["t", 1]})]
            if others:
                variants.append(("bfo:space", {"function_space": self.ref(r.choice(others))}))
            if len(scal) > 1:
                # a valid second argument slot: (Coargument(V*, 0), coefficient)
                dual = self.new()
                if self.emit(["meth", dual, self.ref(V), "dual", []], kind="space"):
                    coarg = self.call("ufl.Coargument", self.ref(dual), 0, kind="arg")
                    if coarg is not None:
                        variants.append(("bfo:slots", {"function_space": self.ref(V), "argument_slots": ["t", self.ref(coarg), self.ref(scal[-1] if scal[-1] != u else scal[0])]}))
            wrap = r.choice(["ufl.sin", "operator.neg", "ufl.algebra.Abs", "mul"])

            def wrapped(x):
                if wrap == "mul":
                    return self.call("operator.mul", self.ref(u), self.ref(x))
                return self.call(wrap, self.ref(x))

            wb = wrapped(base)
            pool += [base] + ([wb] if wb is not None else [])
            for tag, kw in variants:
                t = self.call("ufl.ExternalOperator", self.ref(u), **kw)
                if t is None:
                    continue
                pool.append(t)
                pairs.append([base, t, tag])
                wt = wrapped(t)
                if wt is not None and wb is not None:
                    pool.append(wt)
                    pairs.append([wb, wt, tag + ":nested"])
            if r.random() < 0.6:
                i1 = self.call("ufl.Interpolate", self.ref(u), self.ref(V))
                if i1 is not None:
                    pool.append(i1)
                    for tag, args in [("bfo:interp-same", [self.ref(u), self.ref(V)])] + ([("bfo:interp-space", [self.ref(u), self.ref(others[0])])] if others else []) + ([("bfo:interp-expr", [self.ref(scal[-1]), self.ref(V)])] if len(scal) > 1 and scal[-1] != u else []):
                        i2 = self.call("ufl.Interpolate", *args)
                        if i2 is not None:
                            pool.append(i2)
                            pairs.append([i1, i2, tag])
                            a, b = self.call("ufl.sin", self.ref(i1)), self.call("ufl.sin", self.ref(i2))
                            if a is not None and b is not None:
                                pool += [a, b]
                                pairs.append([a, b, tag + ":nested"])
        return pairs, pool

    def component_rebuilds(self):
        """Tensors re-assembled component by component from two equal-but-distinct
        objects (as_vector([A1[0], A2[1]])): constructors that simplify by looking at
        their operands meet operand tuples that a successful == re-points."""
        r = self.rng
        pairs, pool = [], []
        for M in self.meshes[:2]:
            scal = [c for c in M["coefs"] + M["consts"] if self.shape(c) == ()]
            vec = [c for c in M["coefs"] + M["consts"] if len(self.shape(c)) == 1]
            cands = []
            if scal:
                cands.append(("ufl.grad", r.choice(scal)))
            if vec:
                cands.append(("ufl.grad", r.choice(vec)))
                cands.append(("operator.neg", r.choice(vec)))
                cands.append(("2*", r.choice(vec)))
            if not cands:
                continue
            fn, base = r.choice(cands)

            def mk():
                if fn == "2*":
                    return self.call("operator.mul", 2, self.ref(base))
                return self.call(fn, self.ref(base))

            A1, A2 = mk(), mk()
            if A1 is None or A2 is None:
                continue
            sh = self.shape(A1)
            if not sh or sh[0] > 3:
                continue
            n = sh[0]
            rest = [["slice"]] * (len(sh) - 1)
            src = [r.choice([A1, A2]) for _ in range(n)]
            if len(set(src)) == 1 and r.random() < 0.8:
                src[r.randrange(n)] = A2 if src[0] == A1 else A1
            comps = []
            for k in range(n):
                key = k if not rest else ["t", k] + rest
                c = self.call("operator.getitem", self.ref(src[k]), key)
                if c is None:
                    break
                comps.append(c)
                other = A2 if src[k] == A1 else A1
                c2 = self.call("operator.getitem", self.ref(other), key)
                if c2 is not None:
                    pairs.append([c, c2, "twin"])
                    pool.append(c2)
            if len(comps) != n:
                continue
            L = self.call("ufl.as_vector" if len(sh) == 1 else "ufl.as_tensor", [self.ref(c) for c in comps])
            if L is None:
                continue
            pool += [A1, A2, L] + comps
            self.watch.append(L)
            pairs.append([A1, A2, "twin"])
            for whole in (A1, A2):
                pairs.append([L, whole, "rebuilt"])
            w = self.call("ufl.dot", self.ref(L), self.ref(L))
            if w is not None:
                pool.append(w)
        return pairs, pool

    def failed_constructions(self):
        """Constructor calls that UFL rejects, each followed by the valid call with equal
        arguments (natural aborts inside the flyweight / interning constructors)."""
        r = self.rng
        pool = []
        bad_good = [
            (["ufl.classes.Zero", [["t", 7.0]]], ["ufl.classes.Zero", [["t", 7]]]),
            (["ufl.classes.Zero", [["t", 2.0, 2]]], ["ufl.classes.Zero", [["t", 2, 2]]]),
            (["ufl.zero", [5.0, 3]], ["ufl.zero", [5, 3]]),
            (["ufl.classes.IntValue", [["c", 57.0, 0.0]]], ["ufl.classes.IntValue", [57]]),
            (["ufl.classes.IntValue", ["x"]], ["ufl.classes.IntValue", [58]]),
            (["ufl.classes.FixedIndex", [2.5]], ["ufl.classes.FixedIndex", [2]]),
            (["ufl.classes.FixedIndex", ["a"]], ["ufl.classes.FixedIndex", [3]]),
            (["ufl.classes.MultiIndex", [["t", 1, 2]]], None),
            (["ufl.classes.FixedIndex", [5.0]], ["ufl.classes.FixedIndex", [5]]),
            (["ufl.classes.FixedIndex", [6.0]], ["ufl.classes.FixedIndex", [6]]),
            (["ufl.Identity", [2.0]], ["ufl.Identity", [2]]),
            (["ufl.as_ufl", ["x"]], None),
        ]
        for bad, good in r.sample(bad_good, r.randint(2, 5)):
            self.emit(["call", self.new(), bad[0], bad[1]], keep_failed=True)
            if good is not None:
                # the valid call is kept in the plan even if it fails here: after a rejected
                # call with equal arguments it must still succeed (clause E0)
                g = self.call(good[0], *good[1], keep_failed=True)
                self.must_succeed.append(self.next - 1)
                if g is not None and good[0].endswith("FixedIndex"):
                    # the interned index inside an expression of the pool
                    g = self.call("ufl.classes.MultiIndex", ["t", self.ref(g)], keep_failed=True)
                    self.must_succeed.append(self.next - 1)
                if g is not None and isinstance(self.node.slots.get(g), Expr):
                    pool.append(g)
                    try:
                        scalar = self.shape(g) == ()
                    except AttributeError:
                        # the valid call handed out a half-built object: stop building on it
                        break
                    except ValueError:
                        scalar = False  # a MultiIndex has no shape
                    if scalar and r.random() < 0.5:
                        w = self.call("ufl.as_vector", [self.ref(g), self.ref(g)])
                        if w is not None:
                            pool.append(w)
        return pool

    @staticmethod
    def _small_enough(o, limit=4000):
        """Fully lowered 3D forms have tens of thousands of nodes; every snapshot of one costs
        seconds and a run with three of them takes two minutes.  They stay in the node, but
        are not pool members of C13 (C27 and C12 still see them)."""
        roots = [itg.integrand() for itg in o.integrals()] if isinstance(o, Form) else [o] if isinstance(o, Expr) else []
        seen = set()
        stack = list(roots)
        while stack:
            n_ = stack.pop()
            if id(n_) in seen:
                continue
            seen.add(id(n_))
            if len(seen) > limit:
                return False
            stack.extend(n_.ufl_operands)
        return True

    def c13_program(self):
        r = self.rng
        self.cfg.setdefault("n_steps", r.randint(0, 5))
        self.cfg.setdefault("abort_p", 0.0)
        # user data (metadata values, sub-domain ids) that is equal in Python but of another
        # numeric type (1 / True / 1.0) is one input for C13: DESIGN 4.2, domain restrictions
        self.cfg["numeric_twins"] = False
        res = self.pool_program()
        pool = []
        # sub-expressions of the forms join the pool (every node kind, incl. MultiIndex)
        for f, rank, mi in self.forms[:4]:
            k = r.randint(4, 12)
            tmp = self.new()
            if not self.emit(["call", tmp, "sim.ops.subexprs", [self.ref(f), k, r.randint(0, 30)]]):
                continue
            outs = [self.new() for _ in range(k)]
            self.emit(["unpack", None, self.ref(tmp), outs])
            for o in outs:
                if o in self.node.slots:
                    self.info[o] = self.describe(self.node.slots[o])
                    pool.append(o)
        nd, pairs, lits = self.terminal_neardups()
        if r.random() < self.cfg.get("bfo_p", 0.3):
            bp, bpool = self.base_form_operators()
            pairs += bp
            pool += bpool
        # forms over several meshes: the same form with the extra-domain map of its integrals
        # handed over in another key order must be equal, with equal hash, repr and signature
        for f, rank, mi in list(self.forms):
            if self.meshes[mi].get("msq"):
                t = self.call("sim.ops.reorder_extra_domain_maps", self.ref(f), kind="form")
                if t is not None:
                    pairs.append([f, t, "twin:extra-domain-map-order"])
                    pool.append(t)
        if r.random() < self.cfg.get("rebuild_p", 0.5):
            cp, cpool = self.component_rebuilds()
            pairs += cp
            pool += cpool
        if r.random() < self.cfg.get("failed_ctor_p", 0.35):
            pool += self.failed_constructions()
        prod = self.producers()
        targets = [e for e in self.exprs if e in prod] + [f[0] for f in self.forms if f[0] in prod]
        for _ in range(self.cfg.get("n_twins") or r.randint(3, 10)):
            if not targets:
                break
            t = r.choice(targets)
            tw, tag = self.twin(t, prod, nd, mutate=r.random() < 0.6)
            if tw is not None and tw in self.node.slots:
                pairs.append([t, tw, tag])
                pool.append(tw)
        for M in self.meshes:
            pool += M["coefs"] + M["consts"] + M["geos"] + [x for x in (M.get("v"), M.get("u")) if x is not None]
        pool += self.exprs + [f[0] for f in self.forms] + lits + [x for p in pairs for x in p[:2]]
        pool = [s_ for s_ in dict.fromkeys(pool) if s_ in self.node.slots and isinstance(self.obj(s_), (Expr, BaseForm)) and self._small_enough(self.obj(s_))]
        res = self.result()
        res["pool"] = pool
        res["pairs"] = [p for p in pairs if p[0] in self.node.slots and p[1] in self.node.slots]
        res["kinds"] = {str(s_): ("form" if isinstance(self.obj(s_), BaseForm) else "expr") for s_ in pool}
        res["mesh_ops"] = [i for i, op in enumerate(self.ops) if op[0] == "call" and op[2] == "ufl.Mesh" and len(op) == 4]
        res["watch"] = [w for w in self.watch if w in pool]
        res["dicts"] = [d for d in self.dicts if d in self.node.slots]
        res["must_succeed"] = list(self.must_succeed)
        return res

    def flat_form(self, M):
        """A form whose integrand is (mostly) a flat commutative expression."""
        r = self.rng
        e = self.flat(M)
        if e is None:
            return self.form(M, 0, 2)
        rank = r.choice([0, 0, 1])
        if rank == 1:
            a = M["v"]
            ash = self.shape(a)
            if ash:
                a = self.call("operator.getitem", self.ref(a), ["t"] + [0] * len(ash))
            e2 = self.call("operator.mul", self.ref(e), self.ref(a)) if a is not None else None
            if e2 is None:
                rank = 0
            else:
                e = e2
        elif r.random() < 0.5 and M["coefs"]:
            c = [c for c in M["coefs"] if self.shape(c) == ()]
            if c:
                e = self.call("operator.mul", self.ref(e), self.ref(r.choice(c))) or e
        kind, m = self.measure(M, kinds=("dx", "dx", "ds"))
        if m is None:
            return None
        f = self.call("operator.mul", self.ref(e), self.ref(m), kind="form")
        if f is not None:
            self.exprs.append(e)
            self.forms.append((f, rank, self.meshes.index(M)))
        return f

    def result(self):
        return {
            "ops": self.ops,
            "info": {str(k): v for k, v in self.info.items()},
            "forms": [list(f) for f in self.forms],
            "derived": [list(f) for f in self.derived],
            "exprs": self.exprs,
            "meshes": [
                {"slot": M["slot"], "coefs": M["coefs"], "consts": M["consts"], "geos": M["geos"], "spaces": M["spaces"], "V": M.get("V"), "v": M.get("v"), "u": M.get("u"), "x": M.get("x"), "gdim": M["gdim"], "msq": bool(M.get("msq"))}
                for M in self.meshes
            ],
            "next": self.next,
            "stats": self.stats,
        }


def xop_plan(node, op):
    """['plan', None, {'kind':..., 'seed':..., 'cfg':{...}}] -> program dict."""
    spec = op[2]
    p = Planner(spec["seed"], spec.get("cfg", {}), node.repo)
    kind = spec.get("kind", "program")
    if kind == "program":
        return p.program()
    if kind == "pool":
        return p.pool_program()
    if kind == "c13":
        return p.c13_program()
    raise simops.Skip("plan-kind")
