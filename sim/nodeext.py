"""Scenario-specific node ops (registry / dispatch ops for C20, pair checks for C13,
snapshots for C27).  Installed into every node by ``install``."""

import inspect

import ufl
import ufl.classes
from ufl.core.expr import Expr
from ufl.core.ufl_type import ufl_type
from ufl.form import BaseForm, Form

from sim import ops
from sim.ops import Skip, _sha


def install(node):
    ext = node.ext
    from sim import planner

    for k, v in list(globals().items()) + [("xop_plan", planner.xop_plan)]:
        if k.startswith("xop_"):
            ext[k[4:]] = (lambda f: (lambda op: f(node, op)))(v)


# ======================================================================= C20
# New expression types, harness-defined algorithm classes and an MRO reference model.

_TYPE_BASES = {
    # name -> (base class, kind)
    "Operator": ("ufl.core.operator.Operator", "op"),
    "MathFunction": ("ufl.mathfunctions.MathFunction", "math"),
    "Derivative": ("ufl.differentiation.Derivative", "op"),
    "CompoundTensorOperator": ("ufl.tensoralgebra.CompoundTensorOperator", "op"),
    "Condition": ("ufl.conditional.Condition", "op"),
    "Terminal": ("ufl.core.terminal.Terminal", "term"),
    "GeometricCellQuantity": ("ufl.geometry.GeometricCellQuantity", "geo"),
    "GeometricFacetQuantity": ("ufl.geometry.GeometricFacetQuantity", "geo"),
    "ConstantValue": ("ufl.constantvalue.ConstantValue", "term"),
    # late types deriving from *concrete* geometric quantities: they fall back to the
    # handler of their parent, which in UFL's own algorithms is a real lowering rule
    "Jacobian": ("ufl.geometry.Jacobian", "geo"),
    "JacobianInverse": ("ufl.geometry.JacobianInverse", "geo"),
    "JacobianDeterminant": ("ufl.geometry.JacobianDeterminant", "geo"),
    "FacetNormal": ("ufl.geometry.FacetNormal", "geo"),
    "CellVolume": ("ufl.geometry.CellVolume", "geo"),
    "FacetArea": ("ufl.geometry.FacetArea", "geo"),
    "SpatialCoordinate": ("ufl.geometry.SpatialCoordinate", "geo"),
    "Circumradius": ("ufl.geometry.Circumradius", "geo"),
}


# late types deriving from concrete compound operators: they inherit a real rule of every
# UFL algorithm (lowering, differentiation, degree estimation, ...)
_CONCRETE_OPS = {
    "Inner": "ufl.tensoralgebra.Inner",
    "Dot": "ufl.tensoralgebra.Dot",
    "Outer": "ufl.tensoralgebra.Outer",
    "Trace": "ufl.tensoralgebra.Trace",
    "Sym": "ufl.tensoralgebra.Sym",
    "Transposed": "ufl.tensoralgebra.Transposed",
    "Div": "ufl.differentiation.Div",
    "Grad": "ufl.differentiation.Grad",
    "Sin": "ufl.mathfunctions.Sin",
    "Sqrt": "ufl.mathfunctions.Sqrt",
    "Conj": "ufl.algebra.Conj",
}

_MI_SECOND = {"Conj": "ufl.algebra.Conj", "Real": "ufl.algebra.Real", "Imag": "ufl.algebra.Imag"}


def _mk_new_type(node, name, base_spec, abstract):
    """Define and register a new Expr subclass named ``name``."""
    second = None
    if isinstance(base_spec, list) and base_spec and base_spec[0] == "mi":
        # ["mi", ["$", slot], "Conj"]: two UFL bases, the second a concrete old operator
        # (the pattern of UFL's own BaseFormOperatorDerivative(BaseFormDerivative, BaseFormOperator))
        base = node.dec(base_spec[1])
        kind = base._sim_kind
        if kind != "op":
            raise Skip("mi-first-base-kind")
        second = ops.resolve(_MI_SECOND[base_spec[2]])
    elif isinstance(base_spec, list):  # ["$", slot] -> earlier new type
        base = node.dec(base_spec)
        kind = base._sim_kind
        if kind == "cmp":
            body = {"__slots__": (), "_sim_kind": "cmp", "__str__": lambda self: f"{name}({', '.join(map(str, self.ufl_operands))})"}
            cls = ufl_type(is_abstract=False)(type(name, (base,), body))
            cls.__module__ = "simtypes"
            return cls
    elif base_spec in _CONCRETE_OPS:
        base = ops.resolve(_CONCRETE_OPS[base_spec])
        body = {"__slots__": (), "_sim_kind": "cmp", "__str__": lambda self: f"{name}({', '.join(map(str, self.ufl_operands))})"}
        cls = type(name, (base,), body)
        cls = ufl_type(is_abstract=False)(cls)
        cls.__module__ = "simtypes"
        return cls
    else:
        path, kind = _TYPE_BASES[base_spec]
        base = ops.resolve(path)

    if kind == "op" or kind == "math":
        if kind == "math" and not getattr(base, "_sim_kind", None):

            def __init__(self, a):
                base.__init__(self, name.lower(), a)

        elif getattr(base, "_sim_kind", None):

            def __init__(self, a):
                base.__init__(self, a)

        else:

            def __init__(self, a):
                ufl.core.operator.Operator.__init__(self, (a,))

        def __str__(self):
            return f"{name}({self.ufl_operands[0]})"

        body = {
            "__slots__": (),
            "__init__": __init__,
            "__str__": __str__,
            "_sim_kind": kind,
            "ufl_shape": property(lambda self: self.ufl_operands[0].ufl_shape),
            "ufl_free_indices": property(lambda self: self.ufl_operands[0].ufl_free_indices),
            "ufl_index_dimensions": property(
                lambda self: self.ufl_operands[0].ufl_index_dimensions
            ),
        }
        if kind == "math":
            # MathFunction reconstruct/repr use its own conventions
            body["_ufl_expr_reconstruct_"] = lambda self, *o: type(self)(*o)
            body["__repr__"] = lambda self: f"{name}({self.ufl_operands[0]!r})"
        if second is not None:
            body["__init__"] = lambda self, a: ufl.core.operator.Operator.__init__(self, (a,))
        traits = {}
        if kind == "op" and second is None and not getattr(base, "_sim_kind", None):
            # the decorator's own options, chosen from the type's name (same on every node):
            # shape / indices attached by the decorator instead of written out, trait flags
            h = sum(map(ord, name))
            if h % 3 == 0:
                for k_ in ("ufl_shape", "ufl_free_indices", "ufl_index_dimensions"):
                    body.pop(k_)
                traits.update(inherit_shape_from_operand=0, inherit_indices_from_operand=0)
            if h % 5 == 1:
                traits["is_terminal_modifier"] = True
            if h % 7 == 2:
                traits["is_differential"] = True
            if h % 11 == 3:
                traits["is_evaluation"] = True
            if h % 4 == 1:
                body["_precedence"] = 2 + h % 7  # its own place in the printing precedence
        cls = type(name, (base,) if second is None else (base, second), body)
        cls = ufl_type(is_abstract=abstract, num_ops=1, **traits)(cls)
    elif kind == "geo":
        body = {"__slots__": (), "name": name.lower(), "_sim_kind": kind}
        cls = type(name, (base,), body)
        cls = ufl_type(is_abstract=abstract)(cls)
    else:  # plain terminal

        def __init__(self, *a):
            ufl.core.terminal.Terminal.__init__(self)

        body = {
            "__slots__": (),
            "__init__": __init__,
            "_sim_kind": kind,
            "ufl_shape": (),
            "ufl_free_indices": (),
            "ufl_index_dimensions": (),
            "ufl_domains": lambda self: (),
            "__str__": lambda self: name,
            "__repr__": lambda self: f"{name}()",
            "__eq__": lambda self, other: type(self) is type(other),
            "_ufl_signature_data_": lambda self, renumbering: name,
        }
        cls = type(name, (base,), body)
        cls = ufl_type(is_abstract=abstract, num_ops=0)(cls)
        cls.__hash__ = lambda self: hash(name)
    cls.__module__ = "simtypes"
    return cls


def xop_regtype(node, op):
    """['regtype', out, name, base_spec, abstract]"""
    _, out, name, base_spec, abstract = op
    cls = _mk_new_type(node, name, base_spec, bool(abstract))
    node.put(out, cls)
    node.newtypes[name] = cls
    if node.evalns is not None:
        node.evalns[name] = cls
    return {"typecode": cls._ufl_typecode_, "handler": cls._ufl_handler_name_}


def xop_newexpr(node, op):
    """['newexpr', out, typeslot, operand-or-mesh]"""
    _, out, tslot, arg = op
    cls = node.dec(tslot)
    if cls._ufl_is_abstract_:
        raise Skip("abstract")
    kind = cls._sim_kind
    if kind == "term":
        e = cls()
    elif kind == "cmp":
        e = cls(*node.dec(arg))
        if type(e) is not cls:
            raise Skip("constructor-simplified")
    else:
        e = cls(node.dec(arg))
    node.put(out, e)
    return None


def _mk_handler(tag, style):
    if style == "pre":

        def h(self, o):
            self.trail.append(tag)
            return tag

    else:

        def h(self, o, *ops_):
            self.trail.append(tag)
            return tag

    h.__name__ = tag
    return h


_ALG_BASES = {
    "MF": "ufl.corealg.multifunction.MultiFunction",
    "TR": "ufl.algorithms.transformer.Transformer",
}


def xop_defalg(node, op):
    """['defalg', out, base, name, {handler_name: style}, parent_slot_or_None]

    Defines (does not instantiate) an algorithm class whose handlers return their own
    name.  style: 'post' = (self, o, *ops), 'pre' = (self, o) (cutoff for MultiFunction,
    pre-handler for Transformer)."""
    _, out, base, name, handlers, parent = op
    if base == "DT":
        return _defalg_dt(node, out, name, handlers)
    if parent is not None:
        bcls = node.dec(parent)
    else:
        bcls = ops.resolve(_ALG_BASES[base])
    baseinit = ops.resolve(_ALG_BASES[base]).__init__

    def __init__(self):
        baseinit(self)
        self.trail = []

    body = {"__init__": __init__, "_sim_base": base}
    decl = dict(getattr(bcls, "_sim_handlers", {}))
    for hname, style in handlers.items():
        body[hname] = _mk_handler(hname, style)
        decl[hname] = style
    if base == "TR" and "terminal" not in decl:
        # Transformer ships a default `terminal = reuse`; the model knows declared
        # handlers only, so every harness Transformer declares `terminal` itself.
        body["terminal"] = _mk_handler("terminal", "pre")
        decl["terminal"] = "pre"
    body["_sim_handlers"] = decl
    cls = type(name, (bcls,), body)
    node.put(out, cls)
    return None


def _class_of_handler(hname):
    for c in Expr._ufl_all_classes_:
        if c.__dict__.get("_ufl_handler_name_") == hname:
            return c
    return None


def _dt_rule(tag, style):
    from ufl.corealg.dag_traverser import DAGTraverser

    if style == "pre":

        def h(self, o, **kw):
            self.trail.append(tag)
            return tag

        return h

    def h(self, o, *ops_, **kw):
        self.trail.append(tag)
        return tag

    return DAGTraverser.postorder(h)


def _defalg_dt(node, out, name, handlers):
    """A DAGTraverser subclass with its own singledispatch ``process``; rules exist only for
    types that are registered at this moment (a rule for a type that does not exist yet
    cannot be written down); ``regrule`` adds rules later."""
    from functools import singledispatchmethod

    from ufl.corealg.dag_traverser import DAGTraverser

    def default(self, o, **kw):
        raise AssertionError("Rule not set")

    def __init__(self):
        DAGTraverser.__init__(self, compress=False)
        self.trail = []

    cls = type(name, (DAGTraverser,), {"__init__": __init__, "_sim_base": "DT", "process": singledispatchmethod(default), "_sim_handlers": {}})
    for hname, style in handlers.items():
        c = _class_of_handler(hname)
        if c is None:
            continue
        cls.process.register(c)(_dt_rule(hname, style))
        cls._sim_handlers[hname] = style
    node.put(out, cls)
    return None


def xop_regrule(node, op):
    """['regrule', None, class_slot, type_slot, style]: register a rule for an existing
    (typically late) type on an already defined, possibly already used, DAGTraverser class."""
    _, _, cslot, tslot, style = op
    cls = node.dec(cslot)
    t = node.dec(tslot)
    if getattr(cls, "_sim_base", None) != "DT":
        raise Skip("not-dt")
    hname = t._ufl_handler_name_
    cls.process.register(t)(_dt_rule(hname, style))
    cls._sim_handlers[hname] = style
    return None


def xop_regdrule(node, op):
    """['regdrule', None, type_slot]: a downstream library registers a differentiation rule
    for its (late) unary operator type on UFL's own GenericDerivativeRuleset: d T(f) = T'(f) df
    with T' := 2, a rule that differs from every inherited one."""
    from ufl.algorithms.apply_derivatives import GenericDerivativeRuleset
    from ufl.corealg.dag_traverser import DAGTraverser

    t = node.dec(op[2])
    if getattr(t, "_sim_kind", None) not in ("op", "math", "cmp") or t._ufl_num_ops_ != 1:
        raise Skip("regdrule-kind")

    @DAGTraverser.postorder
    def rule(self, o, fp):
        return 2 * fp

    GenericDerivativeRuleset.process.register(t)(rule)
    return None


def xop_mkalg(node, op):
    """['mkalg', out, class_slot]: instantiate (first instantiation fills the class cache)."""
    _, out, cslot = op
    cls = node.dec(cslot)
    node.put(out, cls())
    return None


def _model_handler(alg, cls):
    """Reference model of the dispatch rule: handler of the nearest ancestor (incl. the
    class itself) for which the algorithm class declares a handler; 'undefined' at the
    UFLType default."""
    decl = type(alg)._sim_handlers
    for c in cls.__mro__:
        hn = c.__dict__.get("_ufl_handler_name_")
        if hn is None:
            continue
        if hn in decl:
            return hn, decl[hn]
    return None, None


def _model_apply(alg, e, mode):
    """Expected outcome of applying a harness algorithm: (tag of the root, sorted list of
    the handler tags of every node the dispatcher must visit), or ('!ValueError', None)
    when some visited node has no handler.

    MultiFunction via map_expr_dag: every structurally distinct node once, children first,
    nothing below a cut-off ('pre') handler.  MultiFunction called directly: the root only.
    Transformer.visit: plain recursion (no memo), children only for 'post' handlers."""
    base = type(alg)._sim_base
    trail = []
    seen = set()

    def rec(n):
        memo = base in ("MF", "DT")
        if memo and n in seen:
            return None
        if memo:
            seen.add(n)
        hn, style = _model_handler(alg, type(n))
        if hn is None:
            raise ValueError("undefined")
        if mode != "call" or base in ("TR", "DT"):
            if style == "post":
                for c in n.ufl_operands:
                    rec(c)
        trail.append(hn)
        return hn

    try:
        root = rec(e)
        return root, sorted(trail)
    except ValueError:
        return ("!AssertionError" if base == "DT" else "!ValueError"), None


def xop_apply(node, op):
    """['apply', None, alg_slot, expr_slot, mode] -> {'got':..., 'want':...} for harness
    algorithms (root handler tag and the multiset of handler tags of all visited nodes)."""
    _, _, aslot, eslot, mode = op
    alg = node.get(aslot)
    e = node.get(eslot)
    if not isinstance(e, Expr):
        raise Skip("not-an-expression")  # a constructor evaluated to a Python number
    base = type(alg)._sim_base
    want, want_trail = _model_apply(alg, e, mode)
    start = len(alg.trail)
    try:
        if base == "DT":
            # the per-instance memo of results is not what is judged here
            alg._visited_cache.clear()
            got = alg(e)
        elif base == "MF":
            if mode == "call":
                _, style = _model_handler(alg, type(e))
                if style == "pre":
                    got = alg(e)
                else:
                    got = alg(e, *([None] * len(e.ufl_operands)))
            else:
                from ufl.corealg.map_dag import map_expr_dag

                got = map_expr_dag(alg, e, compress=False)
        else:
            got = alg.visit(e)
        if not isinstance(got, str):
            got = "?" + type(got).__name__
    except BaseException as ex:  # noqa: B036
        got = "!" + type(ex).__name__
    res = {"got": got, "want": want}
    if not got.startswith("!") and want_trail is not None:
        got_trail = sorted(alg.trail[start:])
        if got_trail != want_trail:
            res["got_trail"] = got_trail
            res["want_trail"] = want_trail
    return res


_REAL_ALGS = {
    # name -> callable(expr) using UFL's own multifunction / transformer based algorithms
    "replace_self": lambda e: __import__("ufl").replace(e, {}),
    "renumber_indices": lambda e: ops.resolve("ufl.algorithms.renumbering.renumber_indices")(e),
    "remove_complex_nodes": lambda e: ops.resolve(
        "ufl.algorithms.remove_complex_nodes.remove_complex_nodes"
    )(e),
    "strip_variables": lambda e: ops.resolve("ufl.algorithms.transformer.strip_variables")(e),
    "ufl2ufl": lambda e: ops.resolve("ufl.algorithms.transformer.ufl2ufl")(e),
    "ufl2uflcopy": lambda e: ops.resolve("ufl.algorithms.transformer.ufl2uflcopy")(e),
    "apply_algebra_lowering": lambda e: ops.resolve(
        "ufl.algorithms.apply_algebra_lowering.apply_algebra_lowering"
    )(e),
    "estimate_degree": lambda e: ops.resolve(
        "ufl.algorithms.estimate_degrees.estimate_total_polynomial_degree"
    )(e),
    "remove_component_tensors": lambda e: ops.resolve(
        "ufl.algorithms.remove_component_tensors.remove_component_tensors"
    )(e),
    "apply_restrictions_default": lambda e: ops.resolve(
        "ufl.algorithms.apply_restrictions.apply_restrictions"
    )(e),
    "extract_coefficients": lambda e: ops.resolve("ufl.algorithms.analysis.extract_coefficients")(
        e
    ),
    "str": lambda e: str(e),
    "hash": lambda e: hash(e) * 0,
    "expand_derivatives": lambda e: ops.resolve("ufl.algorithms.expand_derivatives")(e),
    "apply_geometry_lowering": lambda e: ops.resolve(
        "ufl.algorithms.apply_geometry_lowering.apply_geometry_lowering"
    )(e),
    "formatter_tree": lambda e: ops.resolve("ufl.algorithms.formatting.tree_format")(e),
    # derivative rule-sets (DAGTraverser based): spatial and Gateaux derivative of the expression
    "grad_expand": lambda e: ops.resolve("ufl.algorithms.expand_derivatives")(ops.resolve("ufl.grad")(e)),
    "gateaux_expand": lambda e: ops.resolve("ufl.algorithms.expand_derivatives")(
        ops.resolve("ufl.derivative")(e, ops.resolve("ufl.algorithms.extract_coefficients")(e)[0])
    ),
    "ufl2unicode": lambda e: ops.resolve("ufl.formatting.ufl2unicode.ufl2unicode")(e),
    "apply_coefficient_split_none": lambda e: e,
}


def _real_instances(node):
    """name -> (factory, how) for long-lived instances of UFL's own algorithm classes.
    how: 'map' (MultiFunction through map_expr_dag), 'visit' (Transformer), 'call'
    (DAGTraverser)."""
    R = ops.resolve
    geo = "ufl.algorithms.apply_geometry_lowering.GeometryLoweringApplier"
    return {
        "GeometryLoweringApplier": (lambda: R(geo)(), "map"),
        "GeometryLoweringApplier-preserve": (
            lambda: R(geo)({R("ufl.classes.Jacobian"), R("ufl.classes.CellVolume")}),
            "map",
        ),
        "IndexRelabeller": (lambda: R("ufl.algorithms.renumbering.IndexRelabeller")(), "map"),
        "ComplexNodeRemoval": (lambda: R("ufl.algorithms.remove_complex_nodes.ComplexNodeRemoval")(), "map"),
        "LowerCompoundAlgebra": (lambda: R("ufl.algorithms.apply_algebra_lowering.LowerCompoundAlgebra")(), "map"),
        "ChangeToReferenceGrad": (lambda: R("ufl.algorithms.change_to_reference.ChangeToReferenceGrad")(), "map"),
        "TerminalStripper": (lambda: R("ufl.algorithms.strip_terminal_data.TerminalStripper")(), "map"),
        "Replacer": (lambda: R("ufl.algorithms.replace.Replacer")({node.get(5): node.get(6)}), "map"),
        "CheckComparisons": (lambda: R("ufl.algorithms.comparison_checker.CheckComparisons")(), "map"),
        "FunctionPullbackApplier": (lambda: R("ufl.algorithms.apply_function_pullbacks.FunctionPullbackApplier")(), "map"),
        "SumDegreeEstimator": (lambda: R("ufl.algorithms.estimate_degrees.SumDegreeEstimator")(1, {}), "map"),
        "RestrictionChecker": (lambda: R("ufl.algorithms.check_restrictions.RestrictionChecker")(False), "map"),
        "RestrictionPropagator": (lambda: R("ufl.algorithms.apply_restrictions.RestrictionPropagator")(), "map"),
        "ArityChecker": (lambda: R("ufl.algorithms.check_arities.ArityChecker")(()), "map"),
        "ReuseTransformer": (lambda: R("ufl.algorithms.transformer.ReuseTransformer")(), "visit"),
        "CopyTransformer": (lambda: R("ufl.algorithms.transformer.CopyTransformer")(), "visit"),
        "VariableStripper": (lambda: R("ufl.algorithms.transformer.VariableStripper")(), "visit"),
        "IndexExpander": (lambda: R("ufl.algorithms.expand_indices.IndexExpander")(), "visit"),
        "GradRuleset": (lambda: R("ufl.algorithms.apply_derivatives.GradRuleset")(2), "call"),
        "ReferenceGradRuleset": (lambda: R("ufl.algorithms.apply_derivatives.ReferenceGradRuleset")(2), "call"),
        "Expression2UnicodeHandler": (lambda: _unicode_handler(), "call"),
    }


def _unicode_handler():
    m = ops.resolve("ufl.formatting.ufl2unicode")
    return m.Expression2UnicodeHandler()


def xop_mkreal(node, op):
    """['mkreal', out, name]: a long-lived instance of one of UFL's own algorithm classes."""
    _, out, name = op
    f, how = _real_instances(node)[name]
    inst = f()
    node.put(out, (inst, how))
    return None


def xop_applyinst(node, op):
    """['applyinst', None, inst_slot, expr_slot] -> repr of the result or '!Type'."""
    _, _, islot, eslot = op[:4]
    inst, how = node.get(islot)
    e = node.get(eslot)
    if not isinstance(e, Expr):
        raise Skip("not-an-expression")
    try:
        if how == "map":
            r = ops.resolve("ufl.corealg.map_dag.map_expr_dag")(inst, e)
        elif how == "visit":
            r = inst.visit(e)
        else:
            r = inst(e)
        return _result_digest(r) if len(op) > 4 and op[4] == "sig" else repr(r)
    except BaseException as ex:  # noqa: B036
        if _is_dispatch_error(ex):
            return "!DispatchError"
        return "!" + type(ex).__name__


def xop_applyreal(node, op):
    """['applyreal', None, alg_name, expr_slot] -> digest of the result or '!Type'."""
    _, _, name, eslot = op[:4]
    e = node.get(eslot)
    if not isinstance(e, Expr):
        raise Skip("not-an-expression")
    f = _REAL_ALGS[name]
    try:
        r = f(e)
        return _result_digest(r) if len(op) > 4 and op[4] == "sig" else repr(r)
    except BaseException as ex:  # noqa: B036
        if _is_dispatch_error(ex):
            return "!DispatchError"
        return "!" + type(ex).__name__


def _result_digest(r):
    """A digest of an algorithm's result that does not depend on the counts of the indices /
    labels the algorithm created (nodes with different histories of use hand out different
    counts): the renumbering-invariant signature for expressions, repr otherwise."""
    if isinstance(r, Expr):
        try:
            return type(r).__name__ + ":" + ops.expr_signature(r)
        except BaseException:  # noqa: B036
            return type(r).__name__ + ":unsigned"
    if isinstance(r, str):
        import re

        # str(expr): the counts of free / summation indices are spelled out
        return re.sub(r"i_(\d+|\{\d+\})", "i_N", r)
    return repr(r)


_DISPATCH_FRAMES = {
    ("multifunction.py", "__call__"),
    ("transformer.py", "visit"),
    ("map_dag.py", "map_expr_dags"),
}


def _is_dispatch_error(ex):
    """An IndexError/KeyError raised by the typecode lookup of the dispatcher itself (the
    innermost frame is MultiFunction.__call__, Transformer.visit or map_expr_dags)."""
    if not isinstance(ex, (IndexError, KeyError)):
        return False
    tb = ex.__traceback__
    last = None
    while tb is not None:
        last = tb
        tb = tb.tb_next
    if last is None:
        return False
    co = last.tb_frame.f_code
    return (co.co_filename.rsplit("/", 1)[-1], co.co_name) in _DISPATCH_FRAMES


# ======================================================================= C13


def _is_form(x):
    return isinstance(x, BaseForm)


def _eq(a, b):
    return bool(a == b)


def snapshot(x, cold=False):
    """History-independent snapshot of an object: digests per field.

    ``cold`` = only observations that do not fill any lazy cache of the object itself
    (repr; for forms: signature / arguments / coefficients computed on a fresh Form over the
    same integrals, raw metadata).  A full snapshot additionally reads the cached accessors
    (hash, signature(), arguments(), coefficients(), ...) and cross-checks them against the
    from-scratch values (field ``cachecheck``)."""
    s = {}
    if isinstance(x, (Expr, Form)) and ops.is_cyclic(x):
        # a node that is its own descendant: nothing else can be computed safely
        return {"repr": "!cyclic", "cyclic": 1}

    def put(k, f):
        try:
            v = f()
            s[k] = v if isinstance(v, (int, str)) else _sha(repr(v))
        except BaseException as ex:  # noqa: B036
            s[k] = "!" + type(ex).__name__

    put("repr", lambda: _sha(repr(x)))
    if isinstance(x, Expr):
        put("shape", lambda: (x.ufl_shape, x.ufl_free_indices, x.ufl_index_dimensions))
        if not cold:
            put("hash", lambda: hash(x))
            put("sig", lambda: ops.expr_signature(x))
            put("str", lambda: _sha(str(x)))
    elif isinstance(x, Form) and _huge(x):
        # fully lowered 3D forms (tens of thousands of nodes): every from-scratch
        # recomputation costs seconds; only the cached observables are followed
        if not cold:
            put("hash", lambda: hash(x))
            put("sig", lambda: x.signature())
        put("meta", lambda: ops.obs("meta", x))
    elif isinstance(x, Form):
        fresh = {}

        def fr():
            if not fresh:
                fresh["v"] = _fresh_args(Form(list(x.integrals())))
            return fresh["v"]

        put("sigfresh", lambda: ops.obs_sig_fresh(x))
        put("argsfresh", fr)
        put("meta", lambda: ops.obs("meta", x))
        put(
            "mdraw",
            lambda: [sorted((repr(k), repr(v)) for k, v in it.metadata().items()) for it in x.integrals()],
        )
        if not cold:
            put("hash", lambda: hash(x))
            put("sig", lambda: x.signature())
            put("args", lambda: [repr(a) for a in x.arguments()])
            put("coeffs", lambda: [repr(a) for a in x.coefficients()])
            put("consts", lambda: [repr(a) for a in x.constants()])
            # the cached accessors must agree with what the integrals say
            try:
                fa, fc = fr()
                fsig = ops.obs_sig_fresh(x)
            except BaseException:  # noqa: B036
                # the from-scratch analysis raises (ill-posed form): nothing to compare with
                fa = None
            if fa is not None:
                bad = []
                for what, cached, fresh in (
                    ("args", lambda: sorted(repr(a) for a in x.arguments()), sorted(fa)),
                    ("coeffs", lambda: sorted(repr(c) for c in x.coefficients()), sorted(fc)),
                    ("sig", lambda: x.signature(), fsig),
                ):
                    try:
                        if cached() != fresh:
                            bad.append(what)
                    except BaseException as ex:  # noqa: B036
                        if isinstance(ex, (KeyboardInterrupt, RecursionError, MemoryError)):
                            raise
                        # a fresh form over the same integrals can be analysed, the object
                        # itself can not (any more): a poisoned lazy cache
                        bad.append(what + "-raises")
                s["cachecheck"] = "ok" if not bad else ",".join(bad)
    elif isinstance(x, BaseForm):
        if not cold:
            put("hash", lambda: hash(x))
            put("args", lambda: [repr(a) for a in x.arguments()])
            put("coeffs", lambda: [repr(a) for a in x.coefficients()])
    elif isinstance(x, dict):
        put("items", lambda: [(repr(k), repr(v)) for k, v in x.items()])
    elif type(x).__name__ == "Measure":
        put("items", lambda: repr(x))
    elif isinstance(x, (set, list)):
        put("items", lambda: sorted(repr(v) for v in x) if isinstance(x, set) else [repr(v) for v in x])
    return s


def _huge(form, limit=6000):
    seen = set()
    stack = [itg.integrand() for itg in form.integrals()]
    while stack:
        n_ = stack.pop()
        if id(n_) in seen:
            continue
        seen.add(id(n_))
        if len(seen) > limit:
            return True
        stack.extend(n_.ufl_operands)
    return False


def _fresh_args(form):
    from ufl.algorithms.analysis import extract_arguments, extract_coefficients

    return (
        [repr(a) for a in extract_arguments(form)],
        [repr(c) for c in extract_coefficients(form)],
    )


def xop_snap(node, op):
    """['snap', None, [slots], cold?] -> {slot: snapshot}"""
    slots = op[2]
    cold = bool(op[3]) if len(op) > 3 else False
    out = {}
    for s in slots:
        if s in node.slots:
            out[str(s)] = snapshot(node.slots[s], cold)
    return out


def xop_snapall(node, op):
    """['snapall', None, lo, hi, cold?] -> snapshots of every live slot in [lo, hi)."""
    lo, hi = op[2], op[3]
    cold = bool(op[4]) if len(op) > 4 else False
    out = {}
    for s in sorted(node.slots):
        if lo <= s < hi:
            x = node.slots[s]
            if isinstance(x, (Expr, BaseForm, dict, set)) or type(x).__name__ == "Measure":
                out[str(s)] = snapshot(x, cold)
    return out


def _interchangeable(a, b):
    """E5: same shape, indices, signature (and value where evaluable)."""
    bad = []
    if isinstance(a, Expr):
        if a.ufl_shape != b.ufl_shape:
            bad.append("shape")
        if a.ufl_free_indices != b.ufl_free_indices or (
            a.ufl_index_dimensions != b.ufl_index_dimensions
        ):
            bad.append("indices")
        try:
            sa = ops.expr_signature(a)
        except BaseException:  # noqa: B036
            sa = None
        try:
            sb = ops.expr_signature(b)
        except BaseException:  # noqa: B036
            sb = None
        if sa != sb:
            bad.append("signature")
        try:
            va = ops.obs_value(a)
        except BaseException:  # noqa: B036
            va = None
        if va is not None:
            try:
                vb = ops.obs_value(b)
            except BaseException as ex:  # noqa: B036
                vb = "!" + type(ex).__name__
            if va != vb:
                bad.append("value")
    elif isinstance(a, Form):
        try:
            sa = a.signature()
        except BaseException:  # noqa: B036
            sa = None
        try:
            sb = b.signature()
        except BaseException:  # noqa: B036
            sb = None
        if sa != sb:
            bad.append("signature")
    return bad


def xop_pairs(node, op):
    """['pairs', None, [[a, b], ...], deep] -> clause violations over the given slot pairs.

    Clauses (DESIGN 4.2): E1 reflexive, E2 symmetric, E4 == => equal hash and repr,
    E5 == => interchangeable.  Only reads existing objects."""
    _, _, pairs, deep = op
    viol = []
    stats = {"pairs": 0, "equal": 0, "equal_distinct": 0}

    class _V(list):
        def append(self, d):
            if "a" in d and "b" in d and d["a"] in node.slots and d["b"] in node.slots:
                d["types"] = type(node.slots[d["a"]]).__name__ + "/" + type(node.slots[d["b"]]).__name__
            list.append(self, d)

    viol = _V()
    for a_s, b_s in pairs:
        if a_s not in node.slots or b_s not in node.slots:
            continue
        a, b = node.slots[a_s], node.slots[b_s]
        if not isinstance(a, (Expr, BaseForm)) or not isinstance(b, (Expr, BaseForm)):
            continue
        if isinstance(a, Expr) != isinstance(b, Expr):
            continue  # Expr == Form is outside the statement
        stats["pairs"] += 1
        try:
            ab = _eq(a, b)
            ba = _eq(b, a)
        except BaseException as ex:  # noqa: B036
            viol.append({"clause": "E0-eq-raises", "a": a_s, "b": b_s, "detail": type(ex).__name__})
            continue
        if a_s == b_s or a is b:
            if not ab:
                viol.append({"clause": "E1-reflexive", "a": a_s, "b": b_s})
            continue
        if ab != ba:
            viol.append({"clause": "E2-symmetric", "a": a_s, "b": b_s})
            continue
        if ab:
            stats["equal"] += 1
            if a is not b:
                stats["equal_distinct"] += 1
            if hash(a) != hash(b):
                viol.append({"clause": "E4-hash", "a": a_s, "b": b_s})
            if repr(a) != repr(b):
                viol.append({"clause": "E4-repr", "a": a_s, "b": b_s})
            if deep:
                for f in _interchangeable(a, b):
                    viol.append({"clause": "E5-" + f, "a": a_s, "b": b_s})
    return {"viol": viol, "stats": stats}


def xop_expecteq(node, op):
    """['expecteq', None, a, b, clause]: a and b must compare equal (both orders), with
    equal hash and repr (used for objects that crossed processes and came back)."""
    _, _, a_s, b_s, clause = op
    a, b = node.get(a_s), node.get(b_s)
    viol = []
    t = type(a).__name__ + "/" + type(b).__name__
    if not _eq(a, b) or not _eq(b, a):
        viol.append({"clause": clause + "-equal", "a": a_s, "b": b_s, "types": t})
    else:
        if hash(a) != hash(b):
            viol.append({"clause": clause + "-hash", "a": a_s, "b": b_s, "types": t})
        if repr(a) != repr(b):
            viol.append({"clause": clause + "-repr", "a": a_s, "b": b_s, "types": t})
    return {"viol": viol}


def xop_triples(node, op):
    """['triples', None, [[a,b,c],...]] -> E3 transitivity violations."""
    _, _, triples = op
    viol = []
    n = 0
    for a_s, b_s, c_s in triples:
        try:
            a, b, c = node.slots[a_s], node.slots[b_s], node.slots[c_s]
        except KeyError:
            continue
        if not all(isinstance(x, (Expr, BaseForm)) for x in (a, b, c)):
            continue
        if len({isinstance(x, Expr) for x in (a, b, c)}) != 1:
            continue
        n += 1
        if _eq(a, b) and _eq(b, c) and not _eq(a, c):
            viol.append({"clause": "E3-transitive", "a": a_s, "b": b_s, "c": c_s})
    return {"viol": viol, "n": n}


def xop_noop(node, op):
    """['noop', None, slot]: apply the arithmetic no-ops that fit the type of the object
    (x+0 / x-0 for a Sum, 1*x / x*1 for a Product, x/1, x**1, abs(x), as_ufl(x), ...):
    constructors that hand back an existing node, on which Python re-runs __init__."""
    import operator

    a = node.get(op[2])
    if not isinstance(a, Expr):
        raise Skip("noop-not-expr")
    cands = [
        lambda x: x + 0,
        lambda x: x - 0,
        lambda x: 1 * x,
        lambda x: x * 1,
        lambda x: x / 1,
        lambda x: x**1,
        lambda x: abs(x) if type(x).__name__ == "Abs" else x,
        lambda x: ufl.as_ufl(x),
        lambda x: ufl.as_tensor(x) if x.ufl_shape else x,
        lambda x: operator.pos(x) if hasattr(x, "__pos__") else x,
    ]
    same = 0
    for f in cands:
        try:
            if f(a) is a:
                same += 1
        except BaseException as ex:  # noqa: B036
            if isinstance(ex, (KeyboardInterrupt, RecursionError, MemoryError)):
                raise
    return {"returned_operand": same}


def xop_rt_anc(node, op):
    """['rt_anc', None, slot, how, k]: round trips (E7) of up to k tracked expressions that
    contain the object in ``slot`` as a proper sub-node (by identity)."""
    import pickle

    _, _, slot, how, k = op
    a = node.get(slot)
    if not isinstance(a, Expr):
        raise Skip("rt_anc-not-expr")
    viol = []
    done = 0
    for s_ in sorted(node.slots):
        x = node.slots[s_]
        if not isinstance(x, Expr) or x is a or s_ == slot:
            continue
        # identity walk that never hashes a node (hashing would re-fill the very caches
        # whose staleness is being looked for)
        found = False
        seen = set()
        stack = [x]
        while stack and len(seen) < 20000:
            n_ = stack.pop()
            if id(n_) in seen:
                continue
            seen.add(id(n_))
            if n_ is a:
                found = n_ is not x
                break
            stack.extend(getattr(n_, "ufl_operands", ()))
        if not found:
            continue
        done += 1
        try:
            y = pickle.loads(pickle.dumps(x, protocol=pickle.HIGHEST_PROTOCOL)) if how == "pickle" else eval(repr(x), dict(node.evalns))
        except BaseException as ex:  # noqa: B036
            if isinstance(ex, (KeyboardInterrupt, RecursionError, MemoryError)):
                raise
            viol.append({"clause": "E7-" + how + "-raises", "a": s_, "b": None, "types": type(x).__name__ + ":" + type(ex).__name__})
            continue
        tn = type(x).__name__ + "/" + type(y).__name__
        if not _eq(y, x) or not _eq(x, y):
            viol.append({"clause": "E7-" + how + "-equal", "a": s_, "b": None, "types": tn})
        elif hash(x) != hash(y):
            viol.append({"clause": "E7-" + how + "-hash", "a": s_, "b": None, "types": tn})
        elif repr(x) != repr(y):
            viol.append({"clause": "E7-" + how + "-repr", "a": s_, "b": None, "types": tn})
        if done >= k:
            break
    return {"viol": viol, "stats": {"pairs": done, "equal": 0, "equal_distinct": 0}}


def xop_roundtrip(node, op):
    """['roundtrip', out, slot, how] how in {'pickle','evalrepr'}: E7 on one object.

    Returns clause violations between the original and its copy."""
    import pickle

    _, out, slot, how = op
    a = node.dec(["$", slot])

    def trip(x):
        if how == "pickle":
            return pickle.loads(pickle.dumps(x, protocol=pickle.HIGHEST_PROTOCOL))
        return eval(repr(x), dict(node.evalns))

    soft = how != "pickle" and not isinstance(a, Expr)
    if soft and not isinstance(a, Form):
        raise Skip("evalrepr-baseform")
    try:
        b = trip(a)
    except BaseException as ex:  # noqa: B036
        if isinstance(ex, (KeyboardInterrupt, RecursionError, MemoryError)):
            raise  # injected faults are not judged here
        if soft:
            # eval(repr(.)) is promised for expressions only; for a form it is used as a
            # source of history-free twins, a failure is not judged
            node.invalidate(out)
            return {"viol": [], "soft": "raised"}
        # The round trip itself failed: name the smallest sub-expression that fails.
        culprit = type(a).__name__
        if isinstance(a, Expr):
            from ufl.corealg.traversal import unique_post_traversal

            for sub in unique_post_traversal(a):
                try:
                    trip(sub)
                except BaseException:  # noqa: B036
                    culprit = type(sub).__name__
                    break
        node.invalidate(out)
        return {"viol": [{"clause": "E7-" + how + "-raises", "a": slot, "b": out, "types": culprit + ":" + type(ex).__name__}]}
    node.put(out, b)
    viol = []
    tn = type(a).__name__ + "/" + type(b).__name__
    if soft and (not isinstance(b, Form) or not _eq(b, a) or not _eq(a, b)):
        return {"viol": [], "soft": "unequal"}
    if not _eq(b, a) or not _eq(a, b):
        viol.append({"clause": "E7-" + how + "-equal", "a": slot, "b": out})
    else:
        if hash(a) != hash(b):
            viol.append({"clause": "E7-" + how + "-hash", "a": slot, "b": out})
        if repr(a) != repr(b):
            viol.append({"clause": "E7-" + how + "-repr", "a": slot, "b": out})
        for f in _interchangeable(a, b):
            viol.append({"clause": "E7-" + how + "-" + f, "a": slot, "b": out})
    for v in viol:
        v["types"] = tn
    return {"viol": viol}
