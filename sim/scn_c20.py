"""C20 - type dispatch stays valid when new expression types are registered later
(DESIGN 4.3)."""

from sim.framework import Scenario

# ---- fixed expression kit (slots 1..29)
KIT = [
    ["call", 1, "sim.elements.Elem", ["Lagrange", ["cell", "triangle"], 1, ["t", 2], ["pb", "identity_pullback"], ["sob", "H1"]]],
    ["call", 2, "ufl.Mesh", [["$", 1]]],
    ["call", 3, "sim.elements.Elem", ["Lagrange", ["cell", "triangle"], 2, ["t"], ["pb", "identity_pullback"], ["sob", "H1"]]],
    ["call", 4, "ufl.FunctionSpace", [["$", 2], ["$", 3]]],
    ["call", 5, "ufl.Coefficient", [["$", 4]]],
    ["call", 6, "ufl.Coefficient", [["$", 4]]],
    ["call", 7, "ufl.SpatialCoordinate", [["$", 2]]],
    ["call", 8, "operator.add", [["$", 5], ["$", 6]]],
    ["call", 9, "operator.mul", [["$", 5], ["$", 6]]],
    ["call", 10, "ufl.sin", [["$", 5]]],
    ["call", 11, "ufl.grad", [["$", 5]]],
    ["call", 12, "operator.pow", [["$", 5], 2]],
    ["call", 13, "ufl.inner", [["$", 11], ["$", 11]]],
    ["call", 14, "ufl.lt", [["$", 5], ["$", 6]]],
    ["call", 15, "ufl.conditional", [["$", 14], ["$", 5], ["$", 6]]],
    ["call", 16, "ufl.variable", [["$", 8]]],
    ["call", 17, "ufl.CellVolume", [["$", 2]]],
    ["call", 18, "operator.getitem", [["$", 7], 0]],
    ["call", 19, "ufl.TestFunction", [["$", 4]]],
    ["call", 20, "operator.mul", [["$", 10], ["$", 19]]],
    ["call", 21, "ufl.outer", [["$", 11], ["$", 11]]],
    ["call", 22, "operator.mul", [2, ["$", 11]]],
]
# operands for late types that derive from concrete compound operators
CONCRETE_OPS = {
    "Inner": [11, 22],
    "Dot": [11, 22],
    "Outer": [11, 22],
    "Trace": [21],
    "Sym": [21],
    "Transposed": [21],
    "Div": [11],
    "Grad": [5],
    "Sin": [5],
    "Sqrt": [5],
    "Conj": [5],
}
KIT_SCALARS = [5, 6, 8, 9, 10, 12, 13, 15, 17, 18, 20]
KIT_ALL = [5, 6, 7, 8, 9, 10, 11, 12, 13, 15, 16, 17, 18, 20]

TYPE_BASES = [
    "Operator",
    "Operator",
    "MathFunction",
    "Derivative",
    "CompoundTensorOperator",
    "Terminal",
    "GeometricCellQuantity",
    "GeometricFacetQuantity",
    "Jacobian",
    "FacetNormal",
    "CellVolume",
    "SpatialCoordinate",
]
CONCRETE_GEO = ["Jacobian", "JacobianInverse", "JacobianDeterminant", "FacetNormal", "CellVolume", "FacetArea", "SpatialCoordinate", "Circumradius"]
REAL_INSTANCES = [
    "GeometryLoweringApplier",
    "GeometryLoweringApplier",
    "GeometryLoweringApplier-preserve",
    "IndexRelabeller",
    "ComplexNodeRemoval",
    "LowerCompoundAlgebra",
    "ChangeToReferenceGrad",
    "TerminalStripper",
    "Replacer",
    "CheckComparisons",
    "FunctionPullbackApplier",
    "SumDegreeEstimator",
    "RestrictionChecker",
    "RestrictionPropagator",
    "ArityChecker",
    "ReuseTransformer",
    "CopyTransformer",
    "VariableStripper",
    "IndexExpander",
    "GradRuleset",
    "ReferenceGradRuleset",
    "Expression2UnicodeHandler",
]
OLD_HANDLERS = [
    "expr",
    "operator",
    "terminal",
    "sum",
    "product",
    "math_function",
    "sin",
    "coefficient",
    "form_argument",
    "geometric_quantity",
    "geometric_cell_quantity",
    "derivative",
    "grad",
    "compound_tensor_operator",
    "inner",
    "conditional",
    "condition",
    "conj",
    "real",
    "imag",
    "power",
    "variable",
    "indexed",
    "multi_index",
    "constant_value",
    "spatial_coordinate",
    "cell_volume",
    "argument",
]
REAL_ALGS = [
    "replace_self",
    "renumber_indices",
    "remove_complex_nodes",
    "strip_variables",
    "ufl2ufl",
    "ufl2uflcopy",
    "apply_algebra_lowering",
    "estimate_degree",
    "remove_component_tensors",
    "extract_coefficients",
    "str",
    "expand_derivatives",
    "formatter_tree",
    "apply_geometry_lowering",
    "apply_restrictions_default",
    "grad_expand",
    "grad_expand",
    "gateaux_expand",
    "ufl2unicode",
]
STRING_ALGS = ("formatter_tree", "ufl2unicode")  # results spell out index counts (str is normalised)
STRING_INSTANCES = ("Expression2UnicodeHandler",)
FAULT_FILES = ["corealg/multifunction.py", "algorithms/transformer.py"]


class C20(Scenario):
    pid = "C20"
    arms = {
        "quick": [("uniform", 5), ("late-handler", 3), ("late-family", 4), ("faulted-init", 2), ("real-algs", 3)],
        "thorough": [("uniform", 5), ("late-handler", 3), ("late-family", 4), ("faulted-init", 3), ("real-algs", 4), ("long", 2)],
    }
    runs = {"quick": 12000, "thorough": 200000}
    wall = {"quick": 70, "thorough": 900}
    rule = (
        "one run = one seeded interleaving of {register new Expr type, define algorithm class, "
        "instantiate it (optionally cut short by an injected interrupt / stack squeeze), apply old or "
        "new instance to expressions of old and new types} on a fresh forked interpreter, plus its "
        "'types-first' twin; distinct = distinct schedule digest (sequence of node/op-kind/fault-kind); "
        "non-trivial = at least one apply of an algorithm whose class was instantiated before a type "
        "occurring in the applied expression was registered"
    )
    assumptions = [
        "new types are well-formed @ufl_type classes (single-inheritance from a UFL Expr class)",
        "the reference model (nearest-ancestor handler by MRO) is the documented dispatch rule of MultiFunction/Transformer",
        "sampling, not proof: a clean batch is evidence only for the interleavings drawn",
    ]

    # -- generation
    def generate(self, rng, arm, tier, zpool):
        salt = rng.choice([0, 1, 7, 42])  # 3 nodes per run share a salt: few salts keep the zygote pool small
        units = []
        n_target = rng.randint(6, 40 if arm != "long" else 90)
        types = []  # (slot, name, base, abstract, kind)
        exprs = []  # (slot, set(type slots used))
        classes = []  # (slot, base, handlers dict)
        algs = []  # (slot, class slot)
        next_t, next_e, next_c, next_a = 100, 200, 300, 400
        tnum = 0
        w = {
            "regtype": 3,
            "newexpr": 4,
            "defalg": 2,
            "mkalg": 3,
            "apply": 6,
            "applyreal": 2 if arm != "real-algs" else 6,
            "regrule": 1,
            "dropalg": 0.7,
            "regdrule": 0.6 if arm != "real-algs" else 2,
            "mkreal": 1 if arm != "real-algs" else 3,
            "applyinst": 1 if arm != "real-algs" else 7,
        }
        if arm == "real-algs":
            w["apply"] = 2
        reals = []
        real_names_ = {}
        kinds = list(w)

        def kind_of(base):
            if isinstance(base, list) and base[0] == "mi":
                return "op"
            if isinstance(base, list):
                for t in types:
                    if t[0] == base[1]:
                        return t[4]
            if base in CONCRETE_GEO:
                return "geo"
            if base in CONCRETE_OPS:
                return "cmp:" + base
            return {
                "Operator": "op",
                "MathFunction": "math",
                "Derivative": "op",
                "CompoundTensorOperator": "op",
                "Terminal": "term",
                "GeometricCellQuantity": "geo",
                "GeometricFacetQuantity": "geo",
            }[base]

        max_types = 6 if arm != "long" else 12
        # "late-family": algorithm classes are defined and used first, then a burst of
        # registrations (mostly chains deriving from the previous late type) with no
        # algorithm use in between, then the new types are exercised
        phases = None
        if arm == "late-family":
            a = rng.randint(3, 8)
            b = a + rng.randint(2, 5)
            phases = (a, b)
            n_target = max(n_target, b + 8)
        if arm == "real-algs":
            # UFL's own algorithms have been used in this process before any type is
            # registered (module-level tables filled on first use)
            for _ in range(rng.randint(2, 7)):
                alg = rng.choice(REAL_ALGS) if rng.random() < 0.5 else rng.choice(["apply_algebra_lowering", "grad_expand", "gateaux_expand", "estimate_degree", "apply_geometry_lowering", "remove_complex_nodes"])
                units.append({"n": 0, "k": "applyreal", "op": ["applyreal", None, alg, rng.choice(KIT_ALL + [21, 22])]})
            n_target += len(units)
        while len(units) < n_target:
            if phases is not None:
                if len(units) < phases[0]:
                    k = rng.choices(["defalg", "mkalg", "apply"], [3, 3, 1])[0]
                elif len(units) < phases[1] and len(types) < max_types:
                    k = "regtype"
                else:
                    k = rng.choices(["newexpr", "apply", "mkalg", "applyreal"], [4, 7, 1, 1])[0]
            else:
                k = rng.choices(kinds, [w[x] for x in kinds])[0]
            if k == "regtype":
                if len(types) >= max_types:
                    continue
                tnum += 1
                name = f"New{tnum}"
                opt = [t for t in types if t[4] == "op"]
                if opt and rng.random() < 0.12:
                    base = ["mi", ["$", rng.choice(opt)[0]], rng.choice(["Conj", "Real", "Imag"])]
                elif types and rng.random() < (0.3 if arm != "late-family" else 0.7):
                    base = ["$", (types[-1] if arm == "late-family" and rng.random() < 0.7 else rng.choice(types))[0]]
                elif arm == "real-algs" and rng.random() < 0.6:
                    base = rng.choice(CONCRETE_GEO + sorted(CONCRETE_OPS))
                elif rng.random() < 0.1:
                    base = rng.choice(sorted(CONCRETE_OPS))
                else:
                    base = rng.choice(TYPE_BASES)
                abstract = rng.random() < 0.15
                units.append({"n": 0, "k": "regtype", "op": ["regtype", next_t, name, base, abstract]})
                types.append((next_t, name, base, abstract, kind_of(base)))
                next_t += 1
            elif k == "newexpr":
                conc = [t for t in types if not t[3]]
                if not conc:
                    continue
                t = rng.choice(conc)
                if t[4] == "geo":
                    arg = ["$", 2]
                    used = {t[0]}
                elif t[4].startswith("cmp:"):
                    arg = [["$", s_] for s_ in CONCRETE_OPS[t[4][4:]]]
                    used = {t[0]}
                elif t[4] == "term":
                    arg = None
                    used = {t[0]}
                else:
                    cands = [(s, set()) for s in KIT_SCALARS] + [e for e in exprs]
                    s, u = rng.choice(cands)
                    arg = ["$", s]
                    used = set(u) | {t[0]}
                units.append({"n": 0, "k": "newexpr", "op": ["newexpr", next_e, ["$", t[0]], arg]})
                exprs.append((next_e, used))
                e0 = next_e
                next_e += 1
                # optionally wrap in old operators so the new node is interior
                if rng.random() < 0.6:
                    f = rng.choice(["sin", "add", "mul", "neg", "pow", "abs"])
                    if f == "sin":
                        op = ["call", next_e, "ufl.sin", [["$", e0]]]
                    elif f == "add":
                        op = ["call", next_e, "operator.add", [["$", e0], ["$", rng.choice([5, 6, 9])]]]
                    elif f == "mul":
                        op = ["call", next_e, "operator.mul", [["$", rng.choice([5, 6, 8])], ["$", e0]]]
                    elif f == "neg":
                        op = ["call", next_e, "operator.neg", [["$", e0]]]
                    elif f == "abs":
                        op = ["call", next_e, "builtins.abs", [["$", e0]]]
                    else:
                        op = ["call", next_e, "operator.pow", [["$", e0], 2]]
                    units.append({"n": 0, "k": "wrap", "op": op})
                    exprs.append((next_e, used))
                    next_e += 1
            elif k == "defalg":
                if len(classes) >= 8:
                    continue
                base = rng.choice(["MF", "MF", "TR", "DT"])
                parent = None
                pcs = [c for c in classes if c[1] == base]
                if pcs and base != "DT" and rng.random() < 0.25:
                    parent = rng.choice(pcs)[0]
                hs = {}
                # a generic fallback most of the time, so dispatch usually succeeds
                r = rng.random()
                if r < 0.6:
                    hs["expr"] = "post"
                elif r < 0.85:
                    hs["operator"] = "post"
                    hs["terminal"] = "post"
                for _ in range(rng.randint(0, 5)):
                    hs[rng.choice(OLD_HANDLERS)] = rng.choice(["post", "post", "pre"])
                if rng.random() < 0.3:
                    # handlers of the concrete classes late types derive from (second bases of
                    # multiple-inheritance types, concrete compound operators)
                    for hn in rng.sample(["conj", "real", "imag", "inner", "dot", "outer", "trace", "sym", "transposed", "div", "grad", "sin", "sqrt", "jacobian", "facet_normal", "cell_volume", "spatial_coordinate"], rng.randint(1, 3)):
                        hs[hn] = rng.choice(["post", "post", "pre"])
                # handlers named after new types: registered already, or still to come
                hi = tnum + (3 if arm in ("late-handler", "late-family") else 1)
                for _ in range(rng.randint(0, 3) + (2 if arm in ("late-handler", "late-family") else 0)):
                    j = rng.randint(1, max(1, hi))
                    if base == "DT" and not any(t[1] == f"New{j}" for t in types):
                        # a singledispatch rule can only be written for a type that exists;
                        # rules for later types arrive through 'regrule'
                        continue
                    hs[f"new{j}"] = rng.choice(["post", "post", "pre"])
                name = f"Alg{len(classes)}"
                units.append({"n": 0, "k": "defalg", "op": ["defalg", next_c, base, name, hs, ["$", parent] if parent else None]})
                classes.append((next_c, base, hs))
                next_c += 1
            elif k == "mkalg":
                if not classes or len(algs) >= 12:
                    continue
                c = rng.choice(classes)
                op = ["mkalg", next_a, ["$", c[0]]]
                if arm == "faulted-init" and rng.random() < 0.5:
                    if rng.random() < 0.7:
                        n = int(10 ** rng.uniform(0, 3.3))
                        fop = ["fault", rng.choice(["interrupt", "interrupt", "memerr"]), {"n": n, "files": FAULT_FILES}, op]
                    else:
                        fop = ["fault", "stack", rng.randint(3, 12), op]
                    units.append({"n": 0, "k": "mkalg-fault", "op": fop})
                    # bounded liveness: the next fault-free instantiation must work
                    next_a += 1
                    op = ["mkalg", next_a, ["$", c[0]]]
                units.append({"n": 0, "k": "mkalg", "op": op})
                algs.append((next_a, c[0]))
                next_a += 1
            elif k == "apply":
                if not algs:
                    continue
                a = rng.choice(algs)
                pool = [e[0] for e in exprs] * 3 + KIT_ALL
                e = rng.choice(pool)
                mode = rng.choice(["call", "map", "map"])
                if arm == "faulted-init" and rng.random() < 0.3:
                    # a dispatch that is cut short (possibly inside the table refresh that a
                    # late type triggers); the same application must work right afterwards
                    fop = ["fault", rng.choice(["interrupt", "interrupt", "memerr"]), {"n": int(10 ** rng.uniform(0, 2.6)), "files": FAULT_FILES + ["corealg/map_dag.py", "corealg/dag_traverser.py"]}, ["apply", None, a[0], e, mode]]
                    units.append({"n": 0, "k": "apply-fault", "op": fop})
                units.append({"n": 0, "k": "apply", "op": ["apply", None, a[0], e, mode]})
            elif k == "applyreal":
                pool = [e[0] for e in exprs] * 4 + KIT_ALL
                e = rng.choice(pool)
                alg = rng.choice(REAL_ALGS)
                kinds_ = {t[4] for t in types for e_ in exprs if e_[0] == e and t[0] in e_[1]}
                if any(k_.startswith("cmp:") for k_ in kinds_) and rng.random() < 0.6:
                    # a late type that inherits a rule of the compound-algebra / derivative passes
                    alg = rng.choice(["apply_algebra_lowering", "apply_algebra_lowering", "grad_expand", "gateaux_expand", "estimate_degree"])
                elif "geo" in kinds_ and rng.random() < 0.5:
                    alg = "apply_geometry_lowering"
                elif rng.random() < 0.4:
                    # the passes every form goes through on its way to a form compiler
                    alg = rng.choice(["apply_algebra_lowering", "grad_expand", "gateaux_expand", "estimate_degree", "remove_complex_nodes", "renumber_indices", "apply_geometry_lowering"])
                units.append({"n": 0, "k": "applyreal", "op": ["applyreal", None, alg, e]})
            elif k == "regdrule":
                cand = [t for t in types if (t[4] in ("op", "math") or t[4] in ("cmp:Sin", "cmp:Sqrt", "cmp:Conj", "cmp:Trace", "cmp:Sym", "cmp:Transposed", "cmp:Div", "cmp:Grad")) and not t[3]]
                if not cand:
                    continue
                units.append({"n": 0, "k": "regdrule", "op": ["regdrule", None, ["$", rng.choice(cand)[0]]]})
            elif k == "dropalg":
                # an algorithm class and its instances go away (short-lived, locally defined
                # classes are common); later classes may be allocated at the same address
                leaf = [c for c in classes if not any(u2["k"] == "defalg" and u2["op"][5] == ["$", c[0]] for u2 in units)]
                if not leaf:
                    continue
                c = rng.choice(leaf)
                gone = [a[0] for a in algs if a[1] == c[0]]
                units.append({"n": 0, "k": "dropalg", "op": ["drop", None, [c[0]] + gone]})
                units.append({"n": 0, "k": "gc", "op": ["gc", None]})
                classes = [x for x in classes if x[0] != c[0]]
                algs = [a for a in algs if a[1] != c[0]]
            elif k == "regrule":
                dts = [c for c in classes if c[1] == "DT"]
                if not dts or not types:
                    continue
                c = rng.choice(dts)
                t = rng.choice(types)
                units.append({"n": 0, "k": "regrule", "op": ["regrule", None, ["$", c[0]], ["$", t[0]], rng.choice(["post", "post", "pre"])]})
            elif k == "mkreal":
                if len(reals) >= 6:
                    continue
                rn = rng.choice(REAL_INSTANCES)
                units.append({"n": 0, "k": "mkreal", "op": ["mkreal", next_a, rn]})
                reals.append(next_a)
                real_names_[next_a] = rn
                next_a += 1
            elif k == "applyinst":
                if not reals:
                    continue
                pool = [e[0] for e in exprs] * 4 + KIT_ALL
                units.append({"n": 0, "k": "applyinst", "op": ["applyinst", None, rng.choice(reals), rng.choice(pool)]})
        plan = {"nodes": [{"salt": salt, "init": KIT}, {"salt": salt, "init": KIT}], "units": units}
        if arm == "real-algs" or rng.random() < 0.25:
            # third node: the judged applications of UFL's own algorithms run in a process in
            # which those algorithms were never used before (no warm-up, no earlier
            # applications); results are compared through count-invariant digests
            plan["nodes"].append({"salt": salt, "init": KIT})
            plan["isolated"] = True
            for u in units:
                if (u["k"] == "applyreal" and u["op"][2] not in STRING_ALGS) or (u["k"] == "applyinst" and real_names_.get(u["op"][2]) not in STRING_INSTANCES):
                    u["op"] = list(u["op"]) + ["sig"]
        return plan

    # -- expansion: node 0 = as scheduled; node 1 = twin with all registrations first, no faults
    def expand(self, plan):
        steps = []
        uos = []
        units = plan["units"]
        for ui, u in enumerate(units):
            steps.append([0, u["op"]])
            uos.append(ui)
        for ui, u in enumerate(units):
            if u["k"] == "regtype":
                steps.append([1, u["op"]])
                uos.append(ui)
        for ui, u in enumerate(units):
            if u["k"] in ("regtype", "mkalg-fault", "apply-fault"):
                continue
            steps.append([1, u["op"]])
            uos.append(ui)
        if plan.get("isolated") and len(plan["nodes"]) > 2:
            judged = self.judged_units(units)
            keep = ("regtype", "regdrule", "regrule", "defalg", "mkalg", "mkreal", "newexpr", "wrap")
            for ui, u in enumerate(units):
                if u["k"] in ("regtype", "regdrule"):
                    steps.append([2, u["op"]])
                    uos.append(ui)
            for ui, u in enumerate(units):
                if (u["k"] in keep and u["k"] not in ("regtype", "regdrule")) or ui in judged:
                    steps.append([2, u["op"]])
                    uos.append(ui)
        return {"nodes": plan["nodes"], "steps": steps, "unit_of_step": uos}

    @staticmethod
    def judged_units(units):
        """Applications of UFL's own algorithms whose outcome must not depend on earlier use:
        those made when every differentiation rule that will ever be registered for a type in
        their expression is already registered (an application made before a rule exists may
        legitimately differ from one made after)."""
        parent = {}
        for u in units:
            if u["k"] == "regtype":
                b = u["op"][3]
                if isinstance(b, list):
                    parent[u["op"][1]] = b[1][1] if b[0] == "mi" else b[1]
        last_rule = {}
        for ui, u in enumerate(units):
            if u["k"] == "regdrule":
                last_rule[u["op"][2][1]] = ui

        def rules_after(t, ui):
            # a rule for a type also serves every late type deriving from it
            while t is not None:
                if last_rule.get(t, -1) > ui:
                    return True
                t = parent.get(t)
            return False

        expr_types = {}
        out = []
        for ui, u in enumerate(units):
            op = u["op"]
            if u["k"] == "newexpr":
                ts = {op[2][1]}
                if op[3] is not None:
                    for a in [op[3]] if op[3] and op[3][0] == "$" else op[3]:
                        ts |= expr_types.get(a[1], set())
                expr_types[op[1]] = ts
            elif u["k"] == "wrap":
                ts = set()
                for a in op[3]:
                    if isinstance(a, list) and a and a[0] == "$":
                        ts |= expr_types.get(a[1], set())
                expr_types[op[1]] = ts
            elif u["k"] == "applyreal" and len(op) > 4 and op[4] == "sig":
                # (long-lived instances keep their own memo of results by design - DAGTraverser's
                # visited cache - and are judged by the twin only)
                if not any(rules_after(t, ui) for t in expr_types.get(op[3], set())):
                    out.append(ui)
        return set(out[-8:])

    def check(self, plan, xp, history):
        units = plan["units"]
        uos = xp["unit_of_step"]
        main = {}
        twin = {}
        iso = {}
        faults = {"interrupt": {"configured": 0, "fired": 0}, "memerr": {"configured": 0, "fired": 0}, "stack": {"configured": 0, "fired": 0}}
        for ev in history:
            si, node, op, r = ev
            if si < 0:
                continue
            (main if node == 0 else twin if node == 1 else iso)[uos[si]] = r
        viols = []
        probes = {
            "apply_after_late_registration": 0,
            "late_type_dispatched_by_preexisting_instance": 0,
            "handler_declared_before_type_registered": 0,
            "interrupt_landed_in_first_instantiation": 0,
            "apply_total": 0,
            "real_instance_applied": 0,
            "interrupt_landed_in_dispatch": 0,
            "judged_against_never_used_process": 0,
            "late_type_met_by_preexisting_real_instance": 0,
        }
        # when was each type registered / each class first instantiated / each instance made
        reg_at = {}
        first_inst = {}
        inst_at = {}
        expr_types = {}
        cls_of = {}
        cls_handlers = {}
        real_at = {}
        real_name = {}
        for ui, u in enumerate(units):
            op = u["op"]
            if u["k"] == "mkreal":
                real_at[op[1]] = ui
                real_name[op[1]] = op[2]
            if u["k"] == "regtype":
                reg_at[op[1]] = ui
                if op[2].lower() in {h for hs in cls_handlers.values() for h in hs}:
                    probes["handler_declared_before_type_registered"] += 1
                expr_types[op[1]] = set()
            elif u["k"] == "defalg":
                cls_handlers[op[1]] = set(op[4])
            elif u["k"] in ("mkalg", "mkalg-fault"):
                iop = op if u["k"] == "mkalg" else op[3]
                r = main.get(ui, {})
                ok = "ok" in r and u["k"] == "mkalg"
                if u["k"] == "mkalg-fault":
                    kind = op[1]
                    faults[kind]["configured"] += 1
                    if "ok" in r and r["ok"].get("fired"):
                        faults[kind]["fired"] += 1
                        if iop[2][1] not in first_inst:
                            probes["interrupt_landed_in_first_instantiation"] += 1
                    if "ok" in r and r["ok"].get("status") == "completed":
                        first_inst.setdefault(iop[2][1], ui)
                if ok:
                    first_inst.setdefault(iop[2][1], ui)
                    inst_at[iop[1]] = ui
                    cls_of[iop[1]] = iop[2][1]
                elif u["k"] == "mkalg":
                    # D3 bounded liveness: a fault-free instantiation must succeed
                    if "skip" not in r:
                        viols.append(
                            {
                                "clause": "D3-instantiate",
                                "unit": ui,
                                "detail": r,
                                "fingerprint": r.get("raised"),
                            }
                        )
            elif u["k"] == "apply-fault":
                r = main.get(ui, {})
                faults[op[1]]["configured"] += 1
                if "ok" in r and isinstance(r["ok"], dict) and r["ok"].get("fired"):
                    faults[op[1]]["fired"] += 1
                    probes["interrupt_landed_in_dispatch"] = probes.get("interrupt_landed_in_dispatch", 0) + 1
            elif u["k"] == "newexpr":
                ts = {op[2][1]}
                if op[3] is not None:
                    refs = [op[3]] if op[3] and op[3][0] == "$" else op[3]
                    for a in refs:
                        ts |= expr_types.get(a[1], set())
                expr_types[op[1]] = ts
            elif u["k"] == "wrap":
                ts = set()
                for a in op[3]:
                    if isinstance(a, list) and a and a[0] == "$":
                        ts |= expr_types.get(a[1], set())
                expr_types[op[1]] = ts
        nontrivial = False
        for ui, u in enumerate(units):
            if u["k"] not in ("apply", "applyreal", "applyinst"):
                continue
            rm = main.get(ui)
            rt = twin.get(ui)
            if rm is None or rt is None:
                continue
            if "skip" in rm or "skip" in rt:
                continue
            probes["apply_total"] += 1
            op = u["op"]
            ets = expr_types.get(op[3], set())
            if u["k"] == "apply":
                a = op[2]
                late = [t for t in ets if reg_at.get(t, -1) > first_inst.get(cls_of.get(a), 10**9)]
                if late:
                    probes["apply_after_late_registration"] += 1
                    nontrivial = True
                if [t for t in ets if reg_at.get(t, -1) > inst_at.get(a, 10**9)]:
                    probes["late_type_dispatched_by_preexisting_instance"] += 1
                v = rm.get("ok")
                if not isinstance(v, dict):
                    viols.append({"clause": "D1-model", "unit": ui, "detail": rm, "fingerprint": "op-failed"})
                    continue
                if v["got"] != v["want"]:
                    base = "?"
                    fp = f"{v['got'] if v['got'].startswith('!') else 'wrong-handler'}"
                    viols.append(
                        {
                            "clause": "D1-model",
                            "unit": ui,
                            "detail": {"got": v["got"], "want": v["want"], "mode": op[4]},
                            "fingerprint": fp,
                        }
                    )
                elif "got_trail" in v:
                    viols.append(
                        {
                            "clause": "D1-model",
                            "unit": ui,
                            "detail": {"got_trail": v["got_trail"], "want_trail": v["want_trail"], "mode": op[4]},
                            "fingerprint": "wrong-traversal",
                        }
                    )
                elif rm != rt:
                    viols.append(
                        {
                            "clause": "D2-twin",
                            "unit": ui,
                            "detail": {"main": rm, "twin": rt},
                            "fingerprint": "harness-alg",
                        }
                    )
            else:
                if ets:
                    nontrivial = True
                    probes["apply_after_late_registration"] += 1
                if u["k"] == "applyinst":
                    probes["real_instance_applied"] = probes.get("real_instance_applied", 0) + 1
                    if [t for t in ets if reg_at.get(t, -1) > real_at.get(op[2], 10**9)]:
                        probes["late_type_met_by_preexisting_real_instance"] = probes.get("late_type_met_by_preexisting_real_instance", 0) + 1
                vm = rm.get("ok")
                if isinstance(vm, str) and vm == "!DispatchError":
                    viols.append(
                        {
                            "clause": "D1-dispatch-error",
                            "unit": ui,
                            "detail": {"alg": real_name.get(op[2], op[2]), "main": vm},
                            "fingerprint": "real-alg" if u["k"] == "applyreal" else "real-instance",
                        }
                    )
                elif ui in iso and "skip" not in iso[ui] and rm != iso[ui]:
                    probes["judged_against_never_used_process"] = probes.get("judged_against_never_used_process", 0) + 1
                    viols.append(
                        {
                            "clause": "D4-first-use",
                            "unit": ui,
                            "detail": {"alg": real_name.get(op[2], op[2]), "main": _short(rm), "never_used_before": _short(iso[ui])},
                            "fingerprint": "real-alg" if u["k"] == "applyreal" else "real-instance",
                        }
                    )
                elif rm != rt:
                    viols.append(
                        {
                            "clause": "D2-twin",
                            "unit": ui,
                            "detail": {"alg": real_name.get(op[2], op[2]), "main": _short(rm), "twin": _short(rt)},
                            "fingerprint": "real-alg" if u["k"] == "applyreal" else "real-instance",
                        }
                    )
        state = {
            "ntypes": len(reg_at),
            "nclasses": len(cls_handlers),
            "ninst": len(inst_at),
            "salt": plan["nodes"][0]["salt"],
        }
        return viols, {"faults": faults, "probes": probes, "state": state, "nontrivial": nontrivial}

    def simplify(self, plan, phase="post", target=None):
        if phase == "pre":
            return
        # drop handlers from defalg units one at a time; un-fault faulted units
        units = plan["units"]
        for i, u in enumerate(units):
            if u["k"] == "defalg" and len(u["op"][4]) > 1:
                for h in list(u["op"][4]):
                    hs = dict(u["op"][4])
                    del hs[h]
                    op = list(u["op"])
                    op[4] = hs
                    q = dict(plan)
                    q["units"] = units[:i] + [dict(u, op=op)] + units[i + 1 :]
                    yield q


def _short(r):
    s = str(r)
    return s if len(s) < 300 else s[:300] + "..."
