"""Soft reset of UFL's process-global state (search mode only).

Forking a fresh node per run is the reference isolation (and the only one used to
confirm, minimise and replay violations).  On this class of VM page faults are globally
serialised, so fork-per-run caps the whole machine at ~40 node-runs/s.  For *search* the
zygote therefore also offers an in-process mode: before each run every process-global
mutable of ``ufl`` is put back to its state at zygote start.  The determinism self-test
compares in-process digests with forked digests; a candidate violation found in-process
is reported only after it has reproduced in freshly forked nodes.

What is captured: for every module ``ufl*`` and every class defined in one (plus the
``UFLType`` metaclass): attributes holding dict / list / set (contents restored in
place), ``itertools.count`` (re-created at the captured position), and immutable scalars
(rebound if changed); class attributes that did not exist at capture are deleted
(``Counted._counter`` is created lazily on subclasses); the rule registries of
functools.singledispatchmethod attributes are put back (rules registered on UFL's own
DAGTraverser rule-sets during a run), single-dispatch and lru caches are cleared.
"""

import gc
import itertools
import sys
import types

_SCALARS = (int, float, str, bool, tuple, frozenset, type(None), complex, bytes)


def _count_value(c):
    r = repr(c)
    return int(r[r.index("(") + 1 : r.index(")")])


def _owners():
    mods = [m for n, m in sorted(sys.modules.items()) if (n == "ufl" or n.startswith("ufl.")) and m is not None]
    seen = set()
    owners = []
    for m in mods:
        owners.append(("m", m))
    for m in mods:
        for v in list(vars(m).values()):
            if isinstance(v, type) and getattr(v, "__module__", "").startswith("ufl") and id(v) not in seen:
                seen.add(id(v))
                owners.append(("c", v))
    # long-lived module-level instances of ufl classes (the global measures dx/ds/dS, cells,
    # pull-backs, Sobolev spaces): their attribute dicts can be polluted by a buggy algorithm
    for m in mods:
        for v in list(vars(m).values()):
            if isinstance(v, (type, types.ModuleType, types.FunctionType)) or id(v) in seen:
                continue
            if getattr(type(v), "__module__", "").startswith("ufl"):
                seen.add(id(v))
                owners.append(("i", v))
    return owners


def _attrs(o):
    """Attribute dict of a class / module / instance (instances: __dict__ and slots)."""
    if isinstance(o, (type, types.ModuleType)):
        return vars(o)
    d = {}
    for c in type(o).__mro__:
        for name in getattr(c, "__slots__", ()) or ():
            if isinstance(name, str) and hasattr(o, name):
                try:
                    d[name] = getattr(o, name)
                except Exception:
                    pass
    if hasattr(o, "__dict__"):
        d.update(vars(o))
    return d


def _dispatch_registry(sdm):
    """The mutable registry dict of a functools.singledispatchmethod (``dispatcher.registry``
    is a read-only proxy of it): the dict in the closure of ``dispatcher.register``."""
    try:
        for cell in sdm.dispatcher.register.__closure__ or ():
            v = cell.cell_contents
            if isinstance(v, dict) and object in v:
                return v
    except Exception:
        pass
    return None


_REGISTRIES = []


def _capture_registries():
    import functools

    del _REGISTRIES[:]
    for kind, o in _owners():
        if kind != "c":
            continue
        for v in vars(o).values():
            if isinstance(v, functools.singledispatchmethod):
                reg = _dispatch_registry(v)
                if reg is not None:
                    _REGISTRIES.append((v, reg, dict(reg)))


def _restore_registries():
    for sdm, reg, saved in _REGISTRIES:
        if reg.keys() != saved.keys() or any(reg[k] is not saved[k] for k in saved):
            reg.clear()
            reg.update(saved)


def capture():
    _capture_registries()
    snap = []
    for kind, o in _owners():
        d = _attrs(o)
        names = set(d.keys())
        items = []
        for k, v in list(d.items()):
            if k.startswith("__") and k.endswith("__") and k not in ("__all__",):
                continue
            if isinstance(v, dict):
                items.append((k, "dict", v, dict(v)))
            elif isinstance(v, list):
                items.append((k, "list", v, list(v)))
            elif isinstance(v, set):
                items.append((k, "set", v, set(v)))
            elif isinstance(v, itertools.count):
                items.append((k, "count", None, _count_value(v)))
            elif isinstance(v, _SCALARS):
                items.append((k, "scalar", None, v))
        snap.append((kind, o, names, items))
    return snap


def restore(snap):
    for kind, o, names, items in snap:
        d = _attrs(o)
        if kind == "c":
            # class attributes created since capture (e.g. lazily created counters)
            for k in [k for k in d.keys() if k not in names]:
                try:
                    delattr(o, k)
                except (AttributeError, TypeError):
                    pass
        for k, typ, obj, saved in items:
            if typ == "dict":
                if obj != saved or list(obj.keys()) != list(saved.keys()):
                    obj.clear()
                    obj.update(saved)
                if d.get(k) is not obj:
                    setattr(o, k, obj)
            elif typ == "list":
                if obj != saved:
                    obj[:] = saved
                if d.get(k) is not obj:
                    setattr(o, k, obj)
            elif typ == "set":
                if obj != saved:
                    obj.clear()
                    obj.update(saved)
                if d.get(k) is not obj:
                    setattr(o, k, obj)
            elif typ == "count":
                cur = d.get(k)
                if not isinstance(cur, itertools.count) or _count_value(cur) != saved:
                    setattr(o, k, itertools.count(saved))
            else:
                cur = d.get(k, _MISSING)
                if cur is _MISSING or cur is not saved and cur != saved or type(cur) is not type(saved):
                    setattr(o, k, saved)
    _restore_registries()
    _clear_function_caches()
    sys.setrecursionlimit(3000)
    gc.collect()


_MISSING = object()


def _clear_function_caches():
    import functools

    for kind, o in _owners():
        if kind != "c":
            continue
        for v in vars(o).values():
            if isinstance(v, functools.singledispatchmethod):
                try:
                    v.dispatcher._clear_cache()
                except Exception:
                    pass
            elif hasattr(v, "cache_clear"):
                try:
                    v.cache_clear()
                except Exception:
                    pass
