"""C13 - structural equality, hashing, repr and pickling are consistent (DESIGN 4.2).

2-3 simulated processes with different hash salts each build the same generated pool
(expressions, forms, sub-expressions, equal twins and near-duplicates, terminals
re-created with equal explicit counts and one field changed).  A seeded history of
comparisons, set lookups, pickle / eval(repr) round trips, pickles shipped between
processes (duplicated, delayed, reordered), crash + restart + reload, and interrupts
inside comparisons follows; clauses E1-E8 are evaluated as the history proceeds.
"""

from sim.framework import Scenario
from sim.scn_c12 import SALTS, call_planner, remap

RT_BASE = 200_000
RECV_BASE = 300_000
BACK_BASE = 350_000
RESTART_OFF = 400_000
NOOP_BASE = 250_000
HI = 1_000_000


class C13(Scenario):
    pid = "C13"
    arms = {
        "quick": [("local", 4), ("ship", 5), ("restart", 3), ("interrupts", 2)],
        "thorough": [("local", 4), ("ship", 5), ("restart", 4), ("interrupts", 3), ("long", 2)],
    }
    runs = {"quick": 4000, "thorough": 60000}
    wall = {"quick": 90, "thorough": 1300}
    rule = (
        "one run = one generated pool (expressions, forms, their sub-expressions, equal twins, near-duplicates with one "
        "field changed, counted terminals / meshes re-created with equal explicit count or id) built on 2-3 simulated "
        "processes with different PYTHONHASHSEED, followed by a seeded history of pair / triple comparisons, set lookups, "
        "pickle and eval(repr) round trips, pickles shipped between processes (duplicated, delayed, reordered, returned), "
        "crash + restart + reload + rebuild on the reloaded mesh, and interrupts inside comparisons; distinct = distinct "
        "schedule digest; non-trivial = at least one pair of distinct objects compared equal and had its hash / repr / "
        "interchangeability checked"
    )
    assumptions = [
        "element stubs have class-faithful, eval-able, salt-independent reprs",
        "literals are finite (NaN breaks == reflexivity in Python itself); equality with Python scalars is outside the statement",
        "point values are compared differentially with UFL's own evaluator, only for expressions over coefficients, constants, literals and the spatial coordinate",
    ]

    # ------------------------------------------------------------------ generation
    def generate(self, rng, arm, tier, zpool):
        cfg = {"families": {"flat": True}}
        if arm == "long":
            cfg["n_twins"] = rng.randint(8, 16)
        P = call_planner(zpool, {"kind": "c13", "seed": rng.getrandbits(40), "cfg": cfg})
        nn = rng.choice([2, 2, 3]) if arm != "local" else rng.choice([1, 2])
        salts = rng.sample(SALTS, nn)
        nodes = [{"salt": s} for s in salts]
        must = set(P.get("must_succeed", []))
        units = [dict({"k": "P", "op": op}, **({"must": 1} if len(op) > 1 and op[1] in must else {})) for op in P["ops"]]
        pool0 = list(P["pool"])
        kinds = dict(P["kinds"])
        interest = [p[:2] for p in P["pairs"]]
        pools = [list(pool0) for _ in range(nn)]
        pkind = [dict(kinds) for _ in range(nn)]
        equalish = [[tuple(p) for p in interest] for _ in range(nn)]
        ctr = {"rt": 0, "recv": 0, "blob": 0, "back": 0}
        blobs = []  # (name, src node, src slot, kind)
        nsteps = rng.randint(6, 22) if arm != "long" else rng.randint(25, 60)
        restarted = set()

        def add(n, op, k="chk"):
            units.append({"k": k, "n": n, "op": op})

        def sample_pairs(n, m):
            out = []
            pl = pools[n]
            if not pl:
                return out
            for _ in range(m):
                if equalish[n] and rng.random() < 0.55:
                    a, b = rng.choice(equalish[n])
                else:
                    a = rng.choice(pl)
                    same = [x for x in pl if pkind[n].get(str(x)) == pkind[n].get(str(a))]
                    b = rng.choice(same)
                out.append([a, b] if rng.random() < 0.5 else [b, a])
            return out

        def maybe_fault(op):
            if arm in ("interrupts", "long") and rng.random() < (0.3 if arm == "interrupts" else 0.1):
                par = int(10 ** rng.uniform(0, 3.7))
                if rng.random() < 0.4:
                    # the n-th line event inside one of the modules that keep state on the objects
                    par = {"n": int(10 ** rng.uniform(0, 2.2)), "files": [rng.choice(["exprequals.py", "core/compute_expr_hash.py", "form.py", "integral.py", "core/expr.py", "core/ufl_type.py", "algorithms/signature.py", "utils/counted.py"])]}
                return ["fault", rng.choice(["interrupt", "interrupt", "memerr"]), par, op]
            return op

        # the baseline snapshot hashes every pool object; in half of the runs the first
        # comparisons happen before that (== of objects that were never hashed)
        early = rng.random() < 0.5
        for n in range(nn):
            if early:
                add(n, ["pairs", None, sample_pairs(n, rng.randint(4, 16)), False])
            add(n, ["snapall", None, 1, HI], "snap")
        weights = {"pairs": 6, "triples": 2, "inset": 2, "roundtrip": 3, "snap": 2, "gc": 0.3, "noop": 1.5, "formop": 1.2, "remeasure": 0.6 if P.get("dicts") and P["meshes"] else 0}
        ctr["noop"] = 0
        if nn > 1 and arm != "local":
            weights.update({"send": 4, "recv": 5})
        if arm in ("restart", "long"):
            weights["crash"] = 1.2
        for _ in range(nsteps):
            n = rng.randrange(nn)
            k = rng.choices(list(weights), list(weights.values()))[0]
            pl = pools[n]
            if k == "pairs":
                add(n, maybe_fault(["pairs", None, sample_pairs(n, rng.randint(6, 30)), rng.random() < 0.5]))
            elif k == "triples" and equalish[n]:
                ts = []
                for _ in range(rng.randint(2, 8)):
                    a, b = rng.choice(equalish[n])
                    cands = [q for q in equalish[n] if a in q or b in q]
                    c = rng.choice(cands)
                    c = c[0] if c[1] in (a, b) else c[1]
                    ts.append(rng.sample([a, b, c], 3))
                add(n, ["triples", None, ts])
            elif k == "inset" and pl:
                a = rng.choice(pl)
                same = [x for x in pl if pkind[n].get(str(x)) == pkind[n].get(str(a))]
                add(n, maybe_fault(["inset", None, a, rng.sample(same, min(len(same), rng.randint(1, 6)))]))
            elif k == "roundtrip" and pl:
                a = rng.choice(pl)
                # expressions: both round trips are promised; forms: pickle, and eval(repr(.))
                # as a source of twins that carry no history (no cached hash / signature)
                how = rng.choice(["pickle", "evalrepr"])
                out = RT_BASE + ctr["rt"]
                ctr["rt"] += 1
                add(n, maybe_fault(["roundtrip", out, a, how]))
                pools[n].append(out)
                pkind[n][str(out)] = pkind[n].get(str(a))
                equalish[n].append((a, out))
            elif k == "noop" and pl:
                # an operation that simplifies to (a part of) its own operand: constructors
                # that return an existing node get __init__ re-run on it by Python
                ex = [x for x in pl if pkind[n].get(str(x)) == "expr"]
                if ex:
                    a = rng.choice(ex)
                    out = NOOP_BASE + ctr["noop"]
                    ctr["noop"] += 1
                    A = ["$", a]
                    op = rng.choice(
                        [
                            ["call", out, "operator.mul", [1, A]],
                            ["call", out, "operator.mul", [A, 1]],
                            ["call", out, "operator.truediv", [A, 1]],
                            ["call", out, "operator.pow", [A, 1]],
                            ["call", out, "operator.add", [A, 0]],
                            ["call", out, "operator.add", [0, A]],
                            ["call", out, "operator.sub", [A, 0]],
                            ["call", out, "builtins.abs", [A]],
                            ["call", out, "ufl.conj", [A]],
                            ["call", out, "ufl.real", [A]],
                            ["call", out, "ufl.as_ufl", [A]],
                            ["call", out, "ufl.as_tensor", [A]],
                            ["call", out, "ufl.transpose", [A]],
                            ["call", out, "ufl.variable", [A]],
                            ["call", out, "operator.neg", [A]],
                        ]
                    )
                    add(n, op if rng.random() < 0.4 else ["noop", None, a])
                    # its result is not tracked: only what it does to the pool matters; the
                    # expressions that contain the operand must still round-trip
                    if rng.random() < 0.6:
                        add(n, ["rt_anc", None, a, rng.choice(["pickle", "evalrepr"]), rng.randint(1, 3)])
            elif k == "remeasure":
                # a new measure is made from a metadata dict that earlier forms were built with,
                # then called with that dict and a degree (the dict is the user's, the forms
                # built with it must keep their repr / hash / signature)
                d_ = rng.choice(P["dicts"])
                m_ = rng.choice(P["meshes"])["slot"]
                o1 = NOOP_BASE + ctr["noop"]
                ctr["noop"] += 2
                add(n, ["call", o1, "ufl.Measure", [rng.choice(["dx", "ds"])], {"domain": ["$", m_], "metadata": ["$", d_]}])
                add(n, ["meth", o1 + 1, ["$", o1], "__call__", [], {"metadata": ["$", d_], rng.choice(["degree", "scheme"]): rng.choice([1, 3, 8])}])
            elif k == "formop" and pl:
                # form arithmetic on pool members that already have a history (hashed,
                # compared, signed); the results join the pool and meet history-free twins
                fs = [x for x in pl if pkind[n].get(str(x)) == "form"]
                if fs:
                    a = rng.choice(fs)
                    mates = [q for q in equalish[n] if a in q and all(pkind[n].get(str(y)) == "form" for y in q)]
                    out = NOOP_BASE + ctr["noop"]
                    ctr["noop"] += 1
                    w = rng.choice(["neg", "scale", "rscale", "addself", "sub"])
                    def fop(x, o):
                        X = ["$", x]
                        if w == "neg":
                            return ["call", o, "operator.neg", [X]]
                        if w == "scale":
                            return ["call", o, "operator.mul", [2, X]]
                        if w == "rscale":
                            return ["call", o, "operator.mul", [-0.5, X]]
                        if w == "addself":
                            return ["call", o, "operator.add", [X, X]]
                        return ["call", o, "operator.sub", [X, X]]
                    add(n, fop(a, out))
                    pools[n].append(out)
                    pkind[n][str(out)] = "form"
                    if mates and rng.random() < 0.7:
                        q = rng.choice(mates)
                        b = q[0] if q[1] == a else q[1]
                        out2 = NOOP_BASE + ctr["noop"]
                        ctr["noop"] += 1
                        add(n, fop(b, out2))
                        pools[n].append(out2)
                        pkind[n][str(out2)] = "form"
                        equalish[n].append((out, out2))
                        add(n, ["pairs", None, [[out, out2], [out2, out]], True])
                    o3 = RT_BASE + ctr["rt"]
                    ctr["rt"] += 1
                    add(n, ["roundtrip", o3, out, rng.choice(["pickle", "evalrepr"])])
            elif k == "snap":
                add(n, ["snapall", None, 1, HI], "snap")
            elif k == "gc":
                add(n, ["gc", None])
            elif k == "send" and pl:
                a = rng.choice(pl)
                name = f"b{ctr['blob']}"
                ctr["blob"] += 1
                add(n, maybe_fault(["send", name, a]) if False else ["send", name, a])
                blobs.append((name, n, a, pkind[n].get(str(a))))
            elif k == "recv" and blobs:
                name, src, a, kd = rng.choice(blobs)
                dst = rng.choice([x for x in range(nn) if x != src] or [src])
                out = RECV_BASE + ctr["recv"]
                ctr["recv"] += 1
                add(dst, ["recv", out, name])
                pools[dst].append(out)
                pkind[dst][str(out)] = kd
                # E8: the received object is an object of this process
                native = a if a in pool0 and dst not in restarted else None
                if native is not None:
                    equalish[dst].append((out, native))
                    add(dst, ["pairs", None, [[out, native], [native, out], [out, out]], True])
                if kd == "expr":
                    o2 = RT_BASE + ctr["rt"]
                    ctr["rt"] += 1
                    add(dst, ["roundtrip", o2, out, "evalrepr"])
                    pools[dst].append(o2)
                    pkind[dst][str(o2)] = kd
                    equalish[dst].append((out, o2))
                if rng.random() < 0.5:
                    o3 = RT_BASE + ctr["rt"]
                    ctr["rt"] += 1
                    add(dst, ["roundtrip", o3, out, "pickle"])
                # duplicate delivery: a second, distinct-but-equal copy in the same process
                if rng.random() < 0.3:
                    out2 = RECV_BASE + ctr["recv"]
                    ctr["recv"] += 1
                    add(dst, ["recv", out2, name])
                    add(dst, ["expecteq", None, out, out2, "E8-duplicate"])
                    pools[dst].append(out2)
                    pkind[dst][str(out2)] = kd
                    equalish[dst].append((out, out2))
                # return trip
                if rng.random() < 0.5 and src not in restarted and dst != src:
                    name2 = f"b{ctr['blob']}"
                    ctr["blob"] += 1
                    add(dst, ["send", name2, out])
                    back = BACK_BASE + ctr["back"]
                    ctr["back"] += 1
                    add(src, ["recv", back, name2])
                    add(src, ["expecteq", None, back, a, "E8-return"])
                    pools[src].append(back)
                    pkind[src][str(back)] = kd
                    equalish[src].append((back, a))
            elif k == "crash":
                # durable state = blobs the driver holds; make sure there is something to reload
                if pl and rng.random() < 0.8:
                    for a in rng.sample(pl, min(len(pl), rng.randint(1, 3))):
                        name = f"b{ctr['blob']}"
                        ctr["blob"] += 1
                        add(n, ["send", name, a])
                        blobs.append((name, n, a, pkind[n].get(str(a))))
                add(n, ["crash"], "crash")
                restarted.add(n)
                pools[n] = []
                pkind[n] = {}
                equalish[n] = []
                loaded = []
                mine = [b for b in blobs if b[1] == n] or blobs
                for name, src, a, kd in rng.sample(mine, min(len(mine), rng.randint(1, 3))):
                    out = RECV_BASE + ctr["recv"]
                    ctr["recv"] += 1
                    add(n, ["recv", out, name])
                    pools[n].append(out)
                    pkind[n][str(out)] = kd
                    loaded.append((out, a, kd))
                # rebuild the program in the restarted process: automatic counts restart at
                # 0 and meet the explicit counts of the reloaded objects; the first mesh is
                # the reloaded one (equal id), so counted terminals of equal count coexist
                dom = None
                if loaded and P["mesh_ops"] and rng.random() < 0.8:
                    dom = RESTART_OFF - 1
                    add(n, ["call", dom, "sim.ops.domain_of", [["$", loaded[0][0]]]])
                first_mesh = P["mesh_ops"][0] if P["mesh_ops"] else None
                for i, op in enumerate(P["ops"]):
                    if op[0] not in ("call", "meth", "attr", "lit", "unpack", "roundtrip"):
                        continue
                    op2 = remap(op, RESTART_OFF)
                    if dom is not None and i == first_mesh:
                        op2 = ["call", op2[1], "sim.ops.identity", [["$", dom]]]
                    add(n, op2, "P2")
                for s in pool0:
                    pools[n].append(s + RESTART_OFF)
                    pkind[n][str(s + RESTART_OFF)] = kinds.get(str(s))
                for a, b in interest:
                    equalish[n].append((a + RESTART_OFF, b + RESTART_OFF))
                for out, a, kd in loaded:
                    if a in pool0:
                        equalish[n].append((out, a + RESTART_OFF))
                        add(n, ["pairs", None, [[out, a + RESTART_OFF], [a + RESTART_OFF, out]], True])
                    # reloaded object against every rebuilt object of its kind
                    same = [x for x in pools[n] if pkind[n].get(str(x)) == kd and x != out]
                    add(n, ["pairs", None, [[out, x] for x in rng.sample(same, min(len(same), 25))], True])
                add(n, ["snapall", None, 1, HI], "snap")
        for n in range(nn):
            add(n, ["pairs", None, sample_pairs(n, 20), True])
            add(n, ["snapall", None, 1, HI], "snap")
        # objects assembled from components of equal-but-distinct operands: after all the
        # comparisons above (which may have re-pointed operand tuples) they must still
        # round-trip
        for w in P.get("watch", []):
            for n in range(nn):
                if n in restarted or w not in pools[n]:
                    continue
                tw = [list(p) for p in equalish[n] if p[0] < RT_BASE and p[1] < RT_BASE][:60]
                if tw and rng.random() < 0.7:
                    add(n, ["pairs", None, tw, False])
                for how in ("pickle", "evalrepr"):
                    out = RT_BASE + ctr["rt"]
                    ctr["rt"] += 1
                    add(n, ["roundtrip", out, w, how])
        return {"nodes": nodes, "units": units}

    # ------------------------------------------------------------------ expansion
    def expand(self, plan):
        steps, uos = [], []
        nn = len(plan["nodes"])
        for ui, u in enumerate(plan["units"]):
            if u["k"] == "P":
                for n in range(nn):
                    steps.append([n, u["op"]])
                    uos.append(ui)
            elif u["n"] < nn:
                steps.append([u["n"], u["op"]])
                uos.append(ui)
        return {"nodes": plan["nodes"], "steps": steps, "unit_of_step": uos}

    # ------------------------------------------------------------------ oracle
    def check(self, plan, xp, history):
        uos = xp["unit_of_step"]
        units = plan["units"]
        nn = len(plan["nodes"])
        viols = []
        model = [dict() for _ in range(nn)]
        faults = {k: {"configured": 0, "fired": 0} for k in ("interrupt", "memerr", "crash", "dup", "delay", "salt")}
        faults["salt"]["configured"] = faults["salt"]["fired"] = len({nc["salt"] for nc in plan["nodes"]}) - 1
        probes = {
            "pairs_checked": 0,
            "equal_pairs": 0,
            "equal_distinct_pairs": 0,
            "triples_checked": 0,
            "roundtrips": 0,
            "objects_received_from_other_process": 0,
            "received_under_other_salt": 0,
            "reload_after_restart": 0,
            "snapshots_compared": 0,
            "interrupt_inside_comparison": 0,
        }
        sent_from = {}
        sent_at = {}
        got = set()
        last_recv_sent = [-1] * nn
        faults["reorder"] = {"configured": 0, "fired": 0}
        seen = set()
        for ev in history:
            si, node, op, r = ev
            if si < 0:
                continue
            ui = uos[si]
            name = op[0]
            faulted = name == "fault"
            if faulted:
                faults[op[1]]["configured"] += 1
                v = r.get("ok") or {}
                if v.get("fired"):
                    faults[op[1]]["fired"] += 1
                    probes["interrupt_inside_comparison"] += 1
                continue  # rule for faulted ops: the return value is never used
            if units[ui].get("must") and "raised" in r and units[ui]["k"] == "P":
                key = ("E0-valid-construction-raises", str(op[2]) + ":" + str(r["raised"]))
                if key not in seen:
                    seen.add(key)
                    viols.append({"clause": key[0], "unit": ui, "fingerprint": key[1], "detail": {"node": node, "salt": plan["nodes"][node]["salt"], "op": op[2], "raised": r["raised"]}})
            if name == "crash":
                faults["crash"]["configured"] += 1
                faults["crash"]["fired"] += 1
                model[node] = {}
                continue
            if name == "send" and "ok" in r:
                sent_from[op[1]] = node
                sent_at[op[1]] = si
            if name == "recv" and "ok" in r:
                src = sent_from.get(op[2])
                if src is not None:
                    faults["delay"]["configured"] += 1
                    if si - sent_at[op[2]] > 1:
                        faults["delay"]["fired"] += 1
                    faults["dup"]["configured"] += 1
                    if (node, op[2]) in got:
                        faults["dup"]["fired"] += 1
                    got.add((node, op[2]))
                    faults["reorder"]["configured"] += 1
                    if sent_at[op[2]] < last_recv_sent[node]:
                        faults["reorder"]["fired"] += 1
                    last_recv_sent[node] = max(last_recv_sent[node], sent_at[op[2]])
                    probes["objects_received_from_other_process"] += 1
                    if plan["nodes"][src]["salt"] != plan["nodes"][node]["salt"]:
                        probes["received_under_other_salt"] += 1
                    if units[ui]["k"] == "chk" and any(u2["k"] == "crash" and u2["n"] == node for u2 in units[:ui]):
                        probes["reload_after_restart"] += 1
            if name in ("pairs", "triples", "roundtrip", "expecteq", "rt_anc"):
                v = r.get("ok")
                if not isinstance(v, dict):
                    continue
                st = v.get("stats") or {}
                probes["pairs_checked"] += st.get("pairs", 0)
                probes["equal_pairs"] += st.get("equal", 0)
                probes["equal_distinct_pairs"] += st.get("equal_distinct", 0)
                if name == "triples":
                    probes["triples_checked"] += v.get("n", 0)
                if name == "roundtrip":
                    probes["roundtrips"] += 1
                for x in v.get("viol", []):
                    fp = x.get("types", "?")
                    key = (x["clause"], fp)
                    if key in seen:
                        continue
                    seen.add(key)
                    viols.append({"clause": x["clause"], "unit": ui, "fingerprint": fp, "detail": {"node": node, "salt": plan["nodes"][node]["salt"], "a": x.get("a"), "b": x.get("b"), "c": x.get("c"), "op": name}})
            elif name == "snapall":
                snaps = r.get("ok")
                if not isinstance(snaps, dict):
                    continue
                for slot, snap in snaps.items():
                    if slot not in model[node]:
                        model[node][slot] = snap
                        continue
                    probes["snapshots_compared"] += 1
                    if snap != model[node][slot]:
                        fields = sorted(k for k in set(snap) | set(model[node][slot]) if snap.get(k) != model[node][slot].get(k))
                        key = ("E6-stability", ",".join(fields))
                        if key in seen:
                            continue
                        seen.add(key)
                        viols.append({"clause": "E6-stability", "unit": ui, "fingerprint": ",".join(fields), "detail": {"node": node, "slot": int(slot), "fields": fields}})
        state = {"salts": sorted(nc["salt"] for nc in plan["nodes"]), "crashes": faults["crash"]["fired"], "recv": min(probes["objects_received_from_other_process"], 6)}
        return viols, {"faults": faults, "probes": probes, "state": state, "nontrivial": probes["equal_distinct_pairs"] > 0}

    def simplify(self, plan, phase="post", target=None):
        nodes = plan["nodes"]
        units = plan["units"]
        if phase == "pre":
            d = (target or {}).get("detail") or {}
            slots = [d[k] for k in ("a", "b", "c", "slot") if isinstance(d.get(k), int)]
            base = [x for x in slots if x < RT_BASE]
            if base and len(base) == len(slots):
                # both objects are natively built: slice the pool program down to them
                from sim.framework import slice_candidate

                q = slice_candidate(plan, base, is_program=lambda u: u["k"] == "P")
                if q is not None:
                    yield q
            return
        for i, u in enumerate(units):
            if u.get("op") and u["op"][0] == "fault":
                q = dict(plan)
                q["units"] = units[:i] + [dict(u, op=u["op"][3])] + units[i + 1 :]
                yield q
        # shrink pair lists
        for i, u in enumerate(units):
            op = u.get("op")
            if op and op[0] == "pairs" and len(op[2]) > 1:
                half = len(op[2]) // 2
                for sub in (op[2][:half], op[2][half:]):
                    q = dict(plan)
                    q["units"] = units[:i] + [dict(u, op=["pairs", None, sub, op[3]])] + units[i + 1 :]
                    yield q
