"""Batch runner, minimiser, replay and evidence (DESIGN 2, 3)."""

import concurrent.futures as cf
import faulthandler
import hashlib
import json
import multiprocessing as mp
import os
import random
import sys
import time
import traceback

from sim import driver
from sim.driver import Inconclusive, canon

VERIF = driver.VERIF
OUT = os.environ.get("VERIF_OUT", os.path.join(VERIF, "out"))
LEVEL = "exploration"


def sub_seed(seed, i):
    return (seed * 1_000_003 + i) % (2**61 - 1)


class Scenario:
    """Interface every scenario implements (driver side)."""

    pid = None
    arms = {"quick": [("default", 1)], "thorough": [("default", 1)]}
    runs = {"quick": 100, "thorough": 1000}
    wall = {"quick": 100, "thorough": 1500}
    rule = ""
    # minimisation keeps candidates with the same clause (True) or clause + fingerprint
    min_clause_only = False
    real_components = [
        "all of ufl/ imported from the tree under test (nodes assert ufl.__file__)",
        "CPython pickle",
        "CPython fork / interpreter hash salt",
    ]
    stub_components = [
        "finite elements (sim/elements.py; UFL ships only AbstractFiniteElement)",
        "transport and durable blob store (driver dict)",
    ]

    def pick_arm(self, rng, tier):
        arms = self.arms[tier]
        tot = sum(w for _, w in arms)
        x = rng.random() * tot
        for a, w in arms:
            x -= w
            if x <= 0:
                return a
        return arms[-1][0]

    def generate(self, rng, arm, tier, zpool):
        raise NotImplementedError

    def expand(self, plan):
        """-> {'nodes': [...], 'steps': [[node, op], ...], 'unit_of_step': [...]}"""
        steps = []
        uos = []
        for ui, u in enumerate(plan["units"]):
            steps.append([u["n"], u["op"]])
            uos.append(ui)
        return {"nodes": plan["nodes"], "steps": steps, "unit_of_step": uos}

    def check(self, plan, xp, history):
        """-> (violations, stats).  violation = {clause, unit, detail, fingerprint}"""
        raise NotImplementedError

    def final_fingerprint(self, plan, viol):
        """Fingerprint of a violation computed from its minimised plan."""
        return viol.get("fingerprint")

    def removable(self, plan):
        """Indices of units the minimiser may delete."""
        return list(range(len(plan["units"])))

    def simplify(self, plan, phase="post", target=None):
        """Yield simpler variants of a plan (beyond unit deletion).  phase 'pre' runs
        before ddmin (cheap structural candidates), 'post' after it."""
        return ()


    def schedule_digest(self, plan, xp, history):
        h = hashlib.sha1()
        for ev in history:
            op = ev[2]
            k = op[0]
            if k == "fault":
                k = "fault:" + op[1] + ":" + op[3][0]
            elif k in ("call", "applyreal"):
                k = k + ":" + str(op[2])
            h.update(f"{ev[1]}:{k};".encode())
        return h.hexdigest()[:16]


def op_refs(x, acc=None):
    """All slots referenced as ['$', n] inside an op."""
    acc = [] if acc is None else acc
    if isinstance(x, list):
        if len(x) == 2 and x[0] == "$" and isinstance(x[1], int):
            acc.append(x[1])
        else:
            for y in x:
                op_refs(y, acc)
    elif isinstance(x, dict):
        for y in x.values():
            op_refs(y, acc)
    return acc


def op_outs(op):
    if op[0] == "fault":
        return op_outs(op[3])
    if op[0] == "unpack":
        return list(op[3])
    if op[0] == "exec_demo":
        return list(op[3])
    if len(op) > 1 and isinstance(op[1], int):
        return [op[1]]
    return []


def slice_candidate(plan, keep_slots, is_program=lambda u: True, offset=0):
    """Backward slice: drop every program unit that does not contribute to ``keep_slots``
    (one big cheap candidate before ddmin).  Units for which ``is_program`` is false are
    kept as they are."""
    units = plan["units"]
    need = set(keep_slots)
    keep = set()
    for i in range(len(units) - 1, -1, -1):
        u = units[i]
        op = u.get("op")
        if not op or not is_program(u):
            keep.add(i)
            continue
        inner = op[3] if op[0] == "fault" else op
        outs = op_outs(op)
        if any(o in need for o in outs):
            keep.add(i)
            need.update(op_refs(inner[2:]))
            if inner[0] in ("roundtrip",) and isinstance(inner[2], int):
                need.add(inner[2])
    if len(keep) == len(units):
        return None
    q = dict(plan)
    q["units"] = [u for i, u in enumerate(units) if i in keep]
    return q


def bypass_candidates(plan, unit_filter=lambda u: True):
    """Replace an expression-building call by one of its slot operands (DESIGN 2,
    minimisation): the op becomes an alias, dependents stay well-formed if shapes agree
    (if not, they are skipped deterministically and the candidate simply fails)."""
    units = plan["units"]
    for i in range(len(units) - 1, -1, -1):
        u = units[i]
        op = u.get("op")
        if not op or op[0] != "call" or not unit_filter(u) or op[2] == "sim.ops.identity":
            continue
        refs = [a for a in op[3] if isinstance(a, list) and len(a) == 2 and a[0] == "$"]
        for rf in refs[:2]:
            q = dict(plan)
            q["units"] = units[:i] + [dict(u, op=["call", op[1], "sim.ops.identity", [rf]])] + units[i + 1 :]
            yield q


# ----------------------------------------------------------------------------- one run


def run_plan(scn, plan, zpool):
    xp = scn.expand(plan)
    history = driver.execute(xp, zpool)
    viols, stats = scn.check(plan, xp, history)
    dg = hashlib.sha256((canon(plan) + driver.digest_history(history)).encode()).hexdigest()
    return xp, history, viols, stats, dg


def same_violation(v, target, clause_only=False):
    if bool(v.get("beyond")) != bool(target.get("beyond")):
        return False
    if clause_only:
        return v["clause"] == target["clause"]
    return v["clause"] == target["clause"] and v.get("fingerprint") == target.get("fingerprint")


def minimise(scn, plan, target, zpool, cap_s=60.0):
    """ddmin over units, then scenario-specific simplifications; keeps only candidates
    that show the same clause + fingerprint."""
    t0 = time.monotonic()
    tests = [0]

    def fails(p):
        tests[0] += 1
        try:
            _, _, viols, _, _ = run_plan(scn, p, zpool)
        except Inconclusive:
            return False
        return any(same_violation(v, target, scn.min_clause_only) for v in viols)

    def without(p, drop):
        q = dict(p)
        q["units"] = [u for i, u in enumerate(p["units"]) if i not in drop]
        return q

    cur = plan
    # cheap structural simplifications first (drop nodes, neutralise configuration)
    progress = True
    while progress and time.monotonic() - t0 < cap_s / 4:
        progress = False
        for cand in scn.simplify(cur, phase="pre", target=target):
            if time.monotonic() - t0 >= cap_s / 4:
                break
            if fails(cand):
                cur = cand
                progress = True
                break
    n = 2
    while time.monotonic() - t0 < cap_s * 0.7:
        rem = scn.removable(cur)
        if not rem:
            break
        n = min(n, len(rem))
        chunk = max(1, len(rem) // n)
        reduced = False
        for start in range(0, len(rem), chunk):
            if time.monotonic() - t0 >= cap_s * 0.7:
                break
            drop = set(rem[start : start + chunk])
            cand = without(cur, drop)
            if fails(cand):
                cur = cand
                n = max(n - 1, 2)
                reduced = True
                break
        if not reduced:
            if chunk == 1:
                break
            n = min(len(rem), n * 2)
    # scenario-specific simplification to a fixpoint
    progress = True
    while progress and time.monotonic() - t0 < cap_s:
        progress = False
        for cand in scn.simplify(cur, phase="post", target=target):
            if time.monotonic() - t0 >= cap_s:
                break
            if fails(cand):
                cur = cand
                progress = True
                break
    return cur, {"tests": tests[0], "wall_s": round(time.monotonic() - t0, 2)}


def write_replay(scn, plan, viol, dg, run_seed):
    d = os.path.join(OUT, "replays", scn.pid)
    os.makedirs(d, exist_ok=True)
    path = os.path.join(d, f"{run_seed}-{dg[:8]}.json")
    with open(path, "w") as f:
        json.dump(
            {
                "property": scn.pid,
                "run_seed": run_seed,
                "plan": plan,
                "violation": viol,
                "digest": dg,
            },
            f,
            indent=1,
        )  # no sort_keys: the insertion order of metadata dicts inside ops is part of the plan
    return path


def run_seeded(scn, run_seed, tier, zpool, seen=(), do_min=True, min_cap=60.0, arm=None, fpool=None):
    """Generate, execute, check one run; minimise + replay-verify a violation.

    ``zpool`` may be an in-process (soft reset) pool used for search; ``fpool`` is the
    fork-per-node pool in which every candidate violation must reproduce before it is
    believed, minimised and written as a replay."""
    rng = random.Random(run_seed)
    picked = scn.pick_arm(rng, tier)  # always drawn, so forcing an arm does not shift the stream
    arm = arm or os.environ.get("VERIF_ARM") or picked
    res = {"run_seed": run_seed, "arm": arm, "status": "ok", "violations": []}
    t0 = time.monotonic()
    try:
        plan = scn.generate(rng, arm, tier, zpool)
        plan["property"] = scn.pid
        plan["arm"] = arm
        plan["run_seed"] = run_seed
        xp, history, viols, stats, dg = run_plan(scn, plan, zpool)
    except Inconclusive as e:
        res["status"] = "inconclusive"
        res["detail"] = str(e)
        res["wall_s"] = time.monotonic() - t0
        return res
    res["digest"] = dg
    res["stats"] = stats
    # which constructors / operators / algorithms were actually executed (successfully, on
    # any node): an op the planner can never build would otherwise go unnoticed
    fam = {}
    for ev in history:
        op, r = ev[2], ev[3]
        if isinstance(op, list) and op and op[0] == "fault" and len(op) > 3:
            op = op[3]
        if not (isinstance(r, dict) and "ok" in r) or not isinstance(op, list) or not op:
            continue
        name = op[2] if op[0] == "call" and len(op) > 2 and isinstance(op[2], str) else op[0]
        fam[name] = fam.get(name, 0) + 1
    res["opfam"] = fam
    res["steps"] = len(history)
    res["schedule"] = scn.schedule_digest(plan, xp, history)
    res["plan_size"] = len(plan["units"])
    res["sample"] = plan if run_seed % 97 == 0 or len(plan["units"]) <= 12 else None
    if viols and zpool.inproc:
        # candidate found in search mode: it only counts if freshly forked nodes agree
        own = fpool is None
        fpool = fpool or driver.ZygotePool(zpool.repo)
        try:
            _, _, viols_f, _, dg_f = run_plan(scn, plan, fpool)
        except Inconclusive:
            viols_f, dg_f = [], None
        res["search_mode_candidates"] = len(viols)
        if dg_f != dg:
            res["reset_fork_digest_mismatch"] = True
        viols, dg = viols_f, dg_f or dg
        spool, zpool = zpool, fpool
    else:
        own = False
        spool = zpool
    if viols:
        res["status"] = "violation"
        # report one violation per distinct (clause, fingerprint)
        done = set()
        for v in viols:
            key = (v["clause"], v.get("fingerprint"))
            if key in done:
                continue
            done.add(key)
            entry = {"clause": v["clause"], "fingerprint": v.get("fingerprint"), "detail": v.get("detail")}
            if v.get("beyond"):
                entry["beyond"] = True
                res["violations"].append(entry)
                continue
            if do_min and (scn.min_clause_only or key not in seen) and len(done) <= 3:
                try:
                    # shrink in the (fast) search pool, then replay-verify twice in freshly
                    # started zygotes with one fork per node; if the shrunk plan does not
                    # reproduce there, shrink again under fork isolation
                    for mpool in (spool, zpool):
                        mplan, minfo = minimise(scn, plan, v, mpool, cap_s=min_cap)
                        fresh = driver.ZygotePool(zpool.repo)
                        try:
                            _, _, v2, _, dg2 = run_plan(scn, mplan, fresh)
                            _, _, v3, _, dg3 = run_plan(scn, mplan, fresh)
                        finally:
                            fresh.close()
                        m2 = [x for x in v2 if same_violation(x, v, scn.min_clause_only)]
                        if (m2 and dg2 == dg3) or mpool is zpool:
                            break
                    if m2 and dg2 == dg3:
                        entry["replay"] = write_replay(scn, mplan, m2[0], dg2, run_seed)
                        entry["min"] = minfo
                        entry["min_units"] = len(mplan["units"])
                        entry["detail"] = m2[0].get("detail")
                        entry["fingerprint"] = scn.final_fingerprint(mplan, m2[0])
                        entry["minimised"] = True
                    else:
                        entry["replay"] = write_replay(scn, plan, v, dg, run_seed)
                        entry["min"] = {"failed": "minimised plan did not replay identically"}
                except Inconclusive:
                    entry["replay"] = write_replay(scn, plan, v, dg, run_seed)
            else:
                entry["replay"] = write_replay(scn, plan, v, dg, run_seed)
            res["violations"].append(entry)
    if own:
        fpool.close()
    res["wall_s"] = time.monotonic() - t0
    return res


# ----------------------------------------------------------------------------- workers

_W = {}


def _winit(repo):
    faulthandler.enable()
    inproc = os.environ.get("VERIF_ISOLATION", "reset") != "fork"
    _W["zpool"] = driver.ZygotePool(repo, inproc=inproc)
    _W["fpool"] = driver.ZygotePool(repo, limit=8)
    import atexit

    atexit.register(lambda: (_W["zpool"].close(), _W["fpool"].close()))


def _wtask(args):
    scn_id, run_seed, tier, seen, do_min, arm = args
    from sim import scenarios

    scn = scenarios.get(scn_id)
    faulthandler.dump_traceback_later(900, exit=True)
    try:
        return run_seeded(scn, run_seed, tier, _W["zpool"], seen=seen, do_min=do_min, arm=arm, fpool=_W["fpool"])
    except driver.HarnessError as e:
        return {"run_seed": run_seed, "status": "harness", "detail": str(e)}
    except Exception:
        return {"run_seed": run_seed, "status": "harness", "detail": traceback.format_exc()}
    finally:
        faulthandler.cancel_dump_traceback_later()


def _wcorpus(args):
    scn_id, path = args
    from sim import scenarios

    scn = scenarios.get(scn_id)
    with open(path) as f:
        plan = json.load(f)["plan"]
    name = os.path.basename(path)
    res = {"run_seed": plan.get("run_seed", 0), "arm": "corpus", "status": "ok", "violations": [], "corpus": name}
    try:
        xp, history, viols, stats, dg = run_plan(scn, plan, _W["fpool"])
    except Inconclusive as e:
        res["status"] = "inconclusive"
        res["detail"] = str(e)
        return res
    except Exception:
        return {"run_seed": 0, "status": "harness", "detail": traceback.format_exc()}
    res.update(digest=dg, stats=stats, steps=len(history), plan_size=len(plan["units"]), sample=None)
    res["schedule"] = scn.schedule_digest(plan, xp, history)
    done = set()
    for v in viols:
        key = (v["clause"], v.get("fingerprint"))
        if key in done:
            continue
        done.add(key)
        entry = {"clause": v["clause"], "fingerprint": v.get("fingerprint"), "detail": v.get("detail")}
        if v.get("beyond"):
            entry["beyond"] = True
        else:
            res["status"] = "violation"
            entry["replay"] = write_replay(scn, plan, v, dg, "corpus-" + name.replace(".json", ""))
            entry["min_units"] = len(plan["units"])
        res["violations"].append(entry)
    return res


def corpus_files(pid):
    d = os.path.join(VERIF, "corpus", pid)
    if not os.path.isdir(d):
        return []
    return [os.path.join(d, f) for f in sorted(os.listdir(d)) if f.endswith(".json")]


def _wdigest(args):
    scn_id, run_seed, tier, fresh = args
    from sim import scenarios

    scn = scenarios.get(scn_id)
    # fresh = reference isolation: newly started zygotes, one fork per node
    zp = driver.ZygotePool(_W["zpool"].repo) if fresh else _W["zpool"]
    try:
        r = run_seeded(scn, run_seed, tier, zp, do_min=False, fpool=zp if fresh else None)
        if r.get("search_mode_candidates"):
            # search-mode candidate: digest of the search execution is what is compared
            pass
        return run_seed, r.get("digest"), r["status"]
    finally:
        if fresh:
            zp.close()


def make_pool(workers, repo=None):
    ctx = mp.get_context("fork")
    return cf.ProcessPoolExecutor(
        max_workers=workers, mp_context=ctx, initializer=_winit, initargs=(repo or driver.REPO,)
    )


def determinism_selftest(scn_id, seeds, tier, workers):
    """Each seed twice: once in a warm worker zygote, once in fresh zygotes of (most
    likely) another worker.  Digests must agree pairwise."""
    pairs = 0
    mismatches = []
    with make_pool(workers) as ex:
        a = list(ex.map(_wdigest, [(scn_id, s, tier, False) for s in seeds]))
        b = list(ex.map(_wdigest, [(scn_id, s, tier, True) for s in reversed(seeds)]))
    bm = {s: (d, st) for s, d, st in b}
    for s, d, st in a:
        pairs += 1
        if bm[s][0] != d or bm[s][1] != st:
            mismatches.append(s)
    return {"pairs": pairs, "mismatches": mismatches, "digests": {str(s): d for s, d, _ in a}}


# ----------------------------------------------------------------------------- batch


def load_known():
    p = os.path.join(VERIF, "known_findings.json")
    if not os.path.exists(p):
        return []
    with open(p) as f:
        return json.load(f).get("findings", [])


def run_batch(scn, tier, seed, workers=None, runs=None, wall=None, log=print):
    t0 = time.time()
    workers = workers or min(16, os.cpu_count() or 4)
    nruns = runs or scn.runs[tier]
    wall = wall or scn.wall[tier]
    known = [k for k in load_known() if k["property"] == scn.pid and k.get("status") == "known"]
    agg = {
        "evaluations": 0,
        "inconclusive": 0,
        "harness_errors": [],
        "schedules": set(),
        "states": set(),
        "nontrivial": set(),
        "faults": {},
        "probes": {},
        "steps_total": 0,
        "samples": [],
        "arms": {},
        "violations": [],
        "beyond": {},
        "first_seed": None,
        "last_seed": None,
    }
    seen = set()
    nmin = [0]
    distinct_unlisted = {}
    known_hit = {}
    seeds = [sub_seed(seed, i) for i in range(nruns)]
    stop = False
    with make_pool(workers) as ex:
        pending = set()
        it = iter(seeds)
        exhausted = False
        for path in corpus_files(scn.pid):
            pending.add(ex.submit(_wcorpus, (scn.pid, path)))
        while not stop:
            while not exhausted and len(pending) < workers * 3:
                if time.time() - t0 > wall:
                    exhausted = True
                    break
                try:
                    s = next(it)
                except StopIteration:
                    exhausted = True
                    break
                do_min = nmin[0] < 8
                pending.add(ex.submit(_wtask, (scn.pid, s, tier, frozenset(seen), do_min, None)))
            if not pending:
                break
            done, pending = cf.wait(pending, timeout=5, return_when=cf.FIRST_COMPLETED)
            for fut in done:
                try:
                    r = fut.result()
                except Exception as e:  # worker died
                    agg["harness_errors"].append(f"worker: {type(e).__name__}: {e}")
                    continue
                _absorb(scn, agg, r)
                for v in r.get("violations", []):
                    if v.get("beyond"):
                        agg["beyond"][v["clause"]] = agg["beyond"].get(v["clause"], 0) + 1
                        continue
                    if scn.min_clause_only and not v.get("minimised"):
                        key = (v["clause"], "(not minimised)")
                    else:
                        key = (v["clause"], v.get("fingerprint"))
                    if v.get("minimised"):
                        nmin[0] += 1
                    seen.add(key)
                    kf = _match_known(known, v)
                    if kf is not None:
                        known_hit.setdefault(kf["id"], [kf, 0])[1] += 1
                    else:
                        d = distinct_unlisted.setdefault(key, {"n": 0, "first": None})
                        d["n"] += 1
                        if d["first"] is None or ("min" in v and "min" not in d["first"]):
                            d["first"] = dict(v, run_seed=r["run_seed"])
            if len(distinct_unlisted) >= 8 or sum(d["n"] for d in distinct_unlisted.values()) >= 200:
                stop = True
                for f in pending:
                    f.cancel()
    wall_s = time.time() - t0
    return agg, distinct_unlisted, known_hit, wall_s


def _match_known(known, v):
    for k in known:
        if k.get("clause") == v["clause"] and k.get("fingerprint") == v.get("fingerprint"):
            return k
    return None


def _absorb(scn, agg, r):
    st = r.get("status")
    if st == "harness":
        agg["harness_errors"].append(r.get("detail", "")[-2000:])
        return
    agg["evaluations"] += 1
    if agg["first_seed"] is None:
        agg["first_seed"] = r["run_seed"]
    agg["last_seed"] = r["run_seed"]
    if st == "inconclusive":
        agg["inconclusive"] += 1
        return
    agg["arms"][r["arm"]] = agg["arms"].get(r["arm"], 0) + 1
    for k, v in (r.get("opfam") or {}).items():
        agg.setdefault("opfam", {})[k] = agg.get("opfam", {}).get(k, 0) + v
    agg["schedules"].add(r["schedule"])
    agg["steps_total"] += r["steps"]
    if r.get("wall_s", 0) > 20:
        agg.setdefault("slow_runs", []).append([r["run_seed"], r.get("arm"), round(r["wall_s"], 1)])
    s = r.get("stats") or {}
    for k, v in (s.get("faults") or {}).items():
        d = agg["faults"].setdefault(k, {"configured": 0, "fired": 0})
        d["configured"] += v.get("configured", 0)
        d["fired"] += v.get("fired", 0)
    for k, v in (s.get("probes") or {}).items():
        agg["probes"][k] = agg["probes"].get(k, 0) + v
    if s.get("state") is not None:
        agg["states"].add(canon(s["state"]))
    if s.get("nontrivial"):
        agg["nontrivial"].add(r["schedule"])
    if r.get("sample") is not None and len(agg["samples"]) < 3:
        agg["samples"].append(r["sample"])


def write_evidence(scn, tier, seed, agg, distinct_unlisted, known_hit, wall_s, selftest, extra=None):
    evdir = os.environ.get("VERIF_EVIDENCE_DIR", os.path.join(VERIF, "evidence"))
    os.makedirs(evdir, exist_ok=True)
    path = os.path.join(evdir, f"{scn.pid}.json")
    ev = {
        "property_id": scn.pid,
        "tier": tier,
        "seed": seed,
        "level": LEVEL,
        "wall_s": round(wall_s, 2),
        "violations": sum(d["n"] for d in distinct_unlisted.values()),
        "coverage": {
            "evaluations": agg["evaluations"],
            "distinct_nontrivial": len(agg["nontrivial"]),
            "rule": scn.rule,
            "samples": agg["samples"][:3],
            "runs_per_hour": int(agg["evaluations"] / max(wall_s, 1e-6) * 3600),
            "seeds": {"verif_seed": seed, "first_run_seed": agg["first_seed"], "last_run_seed": agg["last_seed"]},
            "steps_total": agg["steps_total"],
            "simulated_time": "n/a - UFL reads no clock; logical steps only (steps_total)",
            "faults": agg["faults"],
            "distinct_schedules": len(agg["schedules"]),
            "distinct_states": len(agg["states"]),
            "probes": agg["probes"],
            "arms": agg["arms"],
            "slow_runs": agg.get("slow_runs", [])[:20],
            "operations_executed": dict(sorted(agg.get("opfam", {}).items(), key=lambda kv: (-kv[1], kv[0]))),
            "inconclusive": agg["inconclusive"],
            "harness_errors": len(agg["harness_errors"]),
            "real_components": scn.real_components,
            "stub_components": scn.stub_components,
            "determinism_selftest": {k: v for k, v in selftest.items() if k != "digests"},
            "known_findings_hit": {k: v[1] for k, v in known_hit.items()},
            "observations_beyond_property": agg["beyond"],
            "aslr_disabled": driver.have_setarch(),
            "tree": driver.REPO,
        },
        "assumptions": scn.assumptions,
    }
    if extra:
        ev["coverage"].update(extra)
    with open(path, "w") as f:
        json.dump(ev, f, indent=1, sort_keys=True, default=str)
    return path
