"""Zygote / node process (DESIGN 2).

Started as:  [setarch -R] env PYTHONHASHSEED=<salt> /venv/bin/python /verif/sim/node.py
Environment:  VERIF_REPO (default /repo) - the tree whose ``ufl`` is imported.

Protocol on fd 0 / fd 1: 4-byte little-endian length + JSON.
  zygote:  {"z":"fork"} -> forks a node which serves ops until {"end":1}; {"z":"quit"}.
  node:    {"op":[...]} -> {"r": result};  {"end":1} -> {"bye":1} and _exit.
The zygote has imported ufl (and the sim node-side modules) and nothing else; a node is a
fork of it, so every run starts from the same interpreter state for a given salt.
"""

import gc
import json
import os
import struct
import sys
import warnings

HERE = os.path.dirname(os.path.abspath(__file__))
REPO = os.environ.get("VERIF_REPO", "/repo")

# keep the real protocol fds private; anything the library prints goes to stderr
_IN = os.dup(0)
_OUT = os.dup(1)
os.dup2(2, 1)


def rd():
    h = b""
    while len(h) < 4:
        c = os.read(_IN, 4 - len(h))
        if not c:
            os._exit(0)
        h += c
    n = struct.unpack("<I", h)[0]
    chunks = []
    got = 0
    while got < n:
        c = os.read(_IN, min(1 << 20, n - got))
        if not c:
            os._exit(0)
        chunks.append(c)
        got += len(c)
    return json.loads(b"".join(chunks))


def wr(o):
    b = json.dumps(o, separators=(",", ":")).encode()
    b = struct.pack("<I", len(b)) + b
    while b:
        k = os.write(_OUT, b)
        b = b[k:]


def main():
    warnings.simplefilter("ignore")
    sys.path.insert(0, os.path.dirname(HERE))
    sys.path.insert(0, REPO)
    sys.setrecursionlimit(3000)
    import ufl

    uf = os.path.realpath(ufl.__file__)
    if not uf.startswith(os.path.realpath(REPO) + "/ufl/"):
        wr({"fatal": f"ufl imported from {uf}, expected under {REPO}"})
        os._exit(3)
    import ufl.algorithms  # noqa: F401
    import ufl.classes  # noqa: F401

    # Import every ufl submodule now: a lazy import during a run would execute module
    # top-level code (extra line events, extra registrations) only the first time.
    import importlib
    import pkgutil

    for mi in pkgutil.walk_packages(ufl.__path__, "ufl."):
        try:
            importlib.import_module(mi.name)
        except Exception:
            pass

    from sim import ops
    from sim import planner  # noqa: F401  (node-side generator)
    from sim import nodeext  # noqa: F401  (scenario-specific node ops)
    from sim import userclasses  # noqa: F401  (downstream-style subclasses)

    from sim import reset

    # Reach measurement (tools/reach.py only; never set by a registered command): line
    # coverage of the tree under test by the generated workload, via sys.monitoring so
    # that it does not collide with the settrace-based fault injection.
    cov = None
    covdir = os.environ.get("VERIF_COVERAGE")
    if covdir:
        import coverage

        os.environ["COVERAGE_CORE"] = "sysmon"
        cov = coverage.Coverage(
            data_file=os.path.join(covdir, f"cov.{os.getpid()}"),
            include=[os.path.join(os.path.realpath(REPO), "ufl", "*")],
            config_file=False,
        )
        cov.start()
    nserved = 0

    gc.collect()
    base = reset.capture()
    gc.collect()
    gc.disable()
    gc.freeze()
    wr({"ready": 1, "salt": os.environ.get("PYTHONHASHSEED"), "py": sys.version.split()[0]})
    while True:
        m = rd()
        z = m.get("z")
        if z == "fork":
            pid = os.fork()
            if pid == 0:
                serve(ops, nodeext)
                os._exit(0)
            else:
                _, st = os.waitpid(pid, 0)
                if st != 0:
                    # the node died abnormally: tell the driver (it is waiting for a reply)
                    wr({"died": st})
        elif z == "inproc":
            # search mode: no fork; global UFL state is put back to zygote start
            reset.restore(base)
            serve(ops, nodeext, inproc=True)
            nserved += 1
            if cov is not None and nserved % 2 == 0:
                cov.save()
        elif z == "quit":
            os._exit(0)
        elif z == "ping":
            wr({"pong": 1})


def serve(ops, nodeext, inproc=False):
    node = ops.Node(REPO)
    nodeext.install(node)
    while True:
        m = rd()
        if "op" in m:
            r = node.run(m["op"])
            wr({"r": r})
        elif "end" in m:
            wr({"bye": 1})
            if inproc:
                return
            os._exit(0)
        else:
            wr({"r": {"skip": "bad-message"}})


if __name__ == "__main__":
    main()
