"""Finite-element stubs used by the simulated nodes.

UFL ships only ``AbstractFiniteElement``; real elements live in downstream
libraries.  These doubles are modelled on ``/repo/test/utils.py`` with two
deliberate differences (DESIGN 1.3):

* class-faithful reprs: ``eval(repr(e))`` in ``eval_namespace()`` rebuilds an
  element of the *same* class, so ``eval(repr(expr)) == expr`` is judged on UFL
  and not on the double;
* salt-independent reprs: cells, pull-backs and Sobolev spaces are printed by
  name (``repr(SobolevSpace)`` lists a ``set``), because the element repr is
  embedded verbatim in mesh / function-space signature data.
"""

from ufl.cell import AbstractCell
from ufl.finiteelement import AbstractFiniteElement
from ufl.pullback import (
    IdentityPullback,
    MixedPullback,
    SymmetricPullback,
)
from ufl.sobolevspace import SobolevSpace


def _sob_name(s):
    return s.name


class Elem(AbstractFiniteElement):
    """A directly defined element."""

    def __init__(self, family, cell, degree, rshape, pullback, sobolev, subdegree=None):
        assert isinstance(cell, AbstractCell)
        assert isinstance(sobolev, SobolevSpace)
        self._family = family
        self._cell = cell
        self._degree = degree
        self._rshape = tuple(rshape)
        self._pullback = pullback
        self._sobolev = sobolev
        self._subdegree = degree if subdegree is None else subdegree
        self._subs = []

    def __repr__(self):
        extra = "" if self._subdegree == self._degree else f", {self._subdegree!r}"
        return (
            f"Elem({self._family!r}, {self._cell!r}, {self._degree!r}, {self._rshape!r}, "
            f"{self._pullback!r}, {_sob_name(self._sobolev)}{extra})"
        )

    def __str__(self):
        return f"<{self._family}{self._degree} on a {self._cell}>"

    def __hash__(self):
        return hash(repr(self))

    def __eq__(self, other):
        return type(self) is type(other) and repr(self) == repr(other)

    def __ne__(self, other):
        return not self.__eq__(other)

    @property
    def sobolev_space(self):
        return self._sobolev

    @property
    def pullback(self):
        return self._pullback

    @property
    def embedded_superdegree(self):
        return self._degree

    @property
    def embedded_subdegree(self):
        return self._subdegree

    @property
    def cell(self):
        return self._cell

    @property
    def reference_value_shape(self):
        return self._rshape

    @property
    def sub_elements(self):
        return self._subs


class MixedElem(Elem):
    """A mixed element."""

    def __init__(self, sub_elements, make_cell_sequence=False):
        subs = list(sub_elements)
        if make_cell_sequence:
            from ufl.cell import CellSequence

            cell = CellSequence(tuple(e.cell for e in subs))
        else:
            cell = subs[0].cell
            for e in subs:
                assert e.cell == cell
        degree = max(e.embedded_superdegree for e in subs)
        rshape = (sum(e.reference_value_size for e in subs),)
        sob = max(e.sobolev_space for e in subs)
        ident = not make_cell_sequence and all(isinstance(e.pullback, IdentityPullback) for e in subs)
        Elem.__init__(self, "Mixed element", cell, degree, rshape, IdentityPullback(), sob)
        self._subs = subs
        self._mcs = bool(make_cell_sequence)
        if not ident:
            self._pullback = MixedPullback(self)

    def __repr__(self):
        if self._mcs:
            return f"MixedElem({self._subs!r}, make_cell_sequence=True)"
        return f"MixedElem({self._subs!r})"

    def __str__(self):
        return f"<MixedElem with {len(self._subs)} sub-element(s)>"


class SymElem(Elem):
    """A symmetric element."""

    def __init__(self, symmetry, sub_elements):
        subs = list(sub_elements)
        self._symmetry = dict(symmetry)
        cell = subs[0].cell
        degree = max(e.embedded_superdegree for e in subs)
        rshape = (sum(e.reference_value_size for e in subs),)
        sob = max(e.sobolev_space for e in subs)
        Elem.__init__(self, "Symmetric element", cell, degree, rshape, None, sob)
        self._subs = subs
        self._pullback = SymmetricPullback(self, self._symmetry)

    def __repr__(self):
        return f"SymElem({self._symmetry!r}, {self._subs!r})"

    def __str__(self):
        return f"<symmetric element on a {self._cell}>"


def eval_namespace():
    """Namespace in which ``eval(repr(x))`` is evaluated for UFL objects."""
    import ufl
    import ufl.classes
    import ufl.pullback
    import ufl.sobolevspace

    ns = {}
    ns.update(vars(ufl.classes))
    for mod in (ufl.pullback, ufl.sobolevspace):
        for k, v in vars(mod).items():
            if not k.startswith("_"):
                ns.setdefault(k, v)
    for c in (
        "vertex",
        "interval",
        "triangle",
        "tetrahedron",
        "quadrilateral",
        "hexahedron",
        "prism",
        "pyramid",
    ):
        ns[c] = getattr(ufl, c)
    import ufl.functionspace

    for k in ufl.__all__:
        ns.setdefault(k, getattr(ufl, k))
    for k, v in vars(ufl.functionspace).items():
        if isinstance(v, type):
            ns.setdefault(k, v)
    ns.update(Elem=Elem, MixedElem=MixedElem, SymElem=SymElem)
    ns["ufl"] = ufl
    return ns
