"""Node-side fault injection: asynchronous interrupt at the n-th UFL line event, and
interpreter stack squeeze (DESIGN 1.2 / 2).

Both use seams the interpreter already has (``sys.settrace``, ``sys.setrecursionlimit``);
nothing in /repo is touched.
"""

import sys


class SimInterrupt(KeyboardInterrupt):
    """The injected asynchronous interruption (Ctrl-C in a notebook)."""


class SimMemoryError(MemoryError):
    """The injected allocation failure: unlike an interrupt it is an ``Exception``, so
    ``except Exception`` clauses in the library may swallow or translate it."""


_PROTECTED_CODES = None


def protected_codes():
    """Code objects during which an interrupt is deferred (torn-table rule, DESIGN 2).

    Interpreter-global tables (flyweight intern tables, the type registry) can be left
    half-written by an asynchronous abort.  That damage is outside all property
    statements, so the injected interrupt waits until no such frame is on the stack.
    """
    global _PROTECTED_CODES
    if _PROTECTED_CODES is None:
        import ufl.core.ufl_type as ut
        from ufl.constantvalue import IntValue, Zero
        from ufl.core.multiindex import FixedIndex, MultiIndex

        codes = set()
        for cls in (Zero, IntValue, FixedIndex, MultiIndex):
            f = cls.__dict__.get("__new__")
            f = getattr(f, "__func__", f)
            if f is not None and hasattr(f, "__code__"):
                codes.add(f.__code__)
        # the whole of ufl_type registration
        for name in ("update_ufl_type_attributes", "update_global_expr_attributes"):
            codes.add(getattr(ut, name).__code__)
        # the inner decorator closure: find by name among code constants
        for const in ut.ufl_type.__code__.co_consts:
            if hasattr(const, "co_name") and const.co_name == "_ufl_type_decorator_":
                codes.add(const)
        _PROTECTED_CODES = frozenset(codes)
    return _PROTECTED_CODES


def _is_protected(frame, codes):
    while frame is not None:
        if frame.f_code in codes:
            return True
        frame = frame.f_back
    return False


def run_with_interrupt(fn, n, prefixes, defer=True, exc=None):
    """Run ``fn()``; raise SimInterrupt at the n-th 'line' event in files under ``prefixes``.

    Returns (status, info, result): status in {"completed", "interrupted", "swallowed"}.
    ``swallowed`` = the interrupt fired but the op still returned normally (some except
    clause ate it); callers treat the result as unusable either way.
    """
    exc = exc or SimInterrupt
    cnt = [0]
    fired = [None]
    deferred = [0]
    codes = protected_codes() if defer else frozenset()
    prefixes = tuple(prefixes)

    def local(frame, event, arg):
        if event == "line":
            cnt[0] += 1
            if cnt[0] >= n and fired[0] is None:
                if codes and _is_protected(frame, codes):
                    deferred[0] += 1
                    return local
                fn_ = frame.f_code.co_filename
                fired[0] = [fn_[fn_.rfind("/ufl/") + 1 :], frame.f_code.co_name]
                raise exc()
        return local

    def tracer(frame, event, arg):
        if fired[0] is not None:
            return None
        if not frame.f_code.co_filename.startswith(prefixes):
            return None
        return local

    old = sys.gettrace()
    sys.settrace(tracer)
    try:
        r = fn()
        status = "completed" if fired[0] is None else "swallowed"
        return status, {"events": cnt[0], "at": fired[0], "deferred": deferred[0]}, r
    except (SimInterrupt, SimMemoryError):
        return "interrupted", {"events": cnt[0], "at": fired[0], "deferred": deferred[0]}, None
    finally:
        sys.settrace(old)


def _depth():
    f = sys._getframe()
    d = 0
    while f is not None:
        d += 1
        f = f.f_back
    return d


def run_with_stack(fn, k):
    """Run ``fn()`` with the recursion limit squeezed to current depth + k."""
    old = sys.getrecursionlimit()
    d = _depth()
    sys.setrecursionlimit(d + max(3, int(k)))
    try:
        r = fn()
        return "completed", {}, r
    except RecursionError:
        return "stack_exhausted", {}, None
    finally:
        sys.setrecursionlimit(old)
