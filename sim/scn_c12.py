"""C12 - signatures do not depend on incidental numbering or process state (DESIGN 4.1).

A replicated state machine without a network: one generated build program P runs on a
pristine reference node and on perturbed nodes (other hash salt, shifted creation
counters, prelude / interleaved noise constructions, faulted noise ops, a second build
in the same process).  Oracle: every ``obs sig`` of P gives the same result everywhere.
"""

import os

from sim.framework import Scenario

SALTS = [0, 1, 2, 3, 5, 7, 11, 42]
COUNTERS = ["Index", "Coefficient", "Constant", "Label", "Mesh"]
BOUNDARY = [8, 9, 10, 11, 98, 99, 100, 101, 998, 999, 1000, 1001, 10**6]
NOISE_BASE = 1_000_000
AGAIN_OFF = 100_000

DEMOS = None


def demo_files(repo):
    global DEMOS
    if DEMOS is None:
        d = os.path.join(repo, "demo")
        DEMOS = sorted(f for f in os.listdir(d) if f.endswith(".py")) if os.path.isdir(d) else []
    return DEMOS


def call_planner(zpool, spec, salt=0):
    from sim.driver import Inconclusive, NodeDied, NodeTimeout

    z = zpool.acquire(salt)
    try:
        z.fork(zpool.inproc)
        r = z.op(["plan", None, spec], 120)
        z.end()
    except (NodeDied, NodeTimeout) as e:
        zpool.discard(z)
        raise Inconclusive("planner:" + type(e).__name__)
    except Exception:
        zpool.discard(z)
        raise
    zpool.release(z)
    if "ok" not in r:
        if r.get("raised") in ("RecursionError", "MemoryError"):
            # the generated program outgrew the planner's own stack: no plan, no verdict
            raise Inconclusive("planner:" + r["raised"])
        raise RuntimeError(f"planner failed: {r}")
    return r["ok"]


def remap(op, off):
    """Shift every slot of an op by ``off`` (used to build the same program twice)."""

    def rec(x):
        if isinstance(x, list):
            if len(x) == 2 and x[0] == "$" and isinstance(x[1], int):
                return ["$", x[1] + off]
            return [rec(y) for y in x]
        if isinstance(x, dict):
            return {k: rec(v) for k, v in x.items()}
        return x

    name = op[0]
    if name in ("call", "meth", "attr", "lit"):
        return [name, op[1] + off if isinstance(op[1], int) else op[1]] + [rec(x) for x in op[2:]]
    if name == "obs":
        return ["obs", None, op[2], op[3] + off]
    if name == "unpack":
        return ["unpack", None, rec(op[2]), [o + off for o in op[3]]]
    if name == "roundtrip":
        return ["roundtrip", op[1] + off, op[2] + off, op[3]]
    if name == "exec_demo":
        return ["exec_demo", None, op[2], [o + off for o in op[3]]]
    raise ValueError(f"remap: {name}")


class C12(Scenario):
    pid = "C12"
    arms = {
        "quick": [("uniform", 4), ("digit-boundary", 4), ("multi-mesh", 3), ("salt", 4), ("warm", 2), ("shared-measure", 3), ("faulty-noise", 2), ("demo", 1), ("probe", 4), ("restart", 3), ("low-stack", 2), ("sweep", 2)],
        "thorough": [("uniform", 4), ("digit-boundary", 4), ("multi-mesh", 3), ("salt", 4), ("warm", 2), ("shared-measure", 3), ("faulty-noise", 3), ("demo", 1), ("deep", 2), ("probe", 4), ("restart", 3), ("low-stack", 2), ("sweep", 3)],
    }
    runs = {"quick": 6000, "thorough": 80000}
    wall = {"quick": 100, "thorough": 1300}
    rule = (
        "one run = one generated UFL build program (env, terminals, 1-3 forms, 0-4 derived forms via public "
        "algorithms) executed on a pristine reference process and 1-3 perturbed simulated processes (hash salt, "
        "creation-counter presets at digit boundaries, prelude/interleaved noise constructions and algorithm runs, "
        "interrupted / stack-squeezed noise ops, foreign pickles, second build in the same process); "
        "distinct = distinct schedule digest; non-trivial = at least one signature observed on a node whose "
        "salt or counter history differs from the reference"
    )
    assumptions = [
        "element stubs print cells / pull-backs / Sobolev spaces by name (salt-independent reprs)",
        "the program never passes explicit count= / ufl_id= and noise never lowers a counter, so creation order is the same on every node",
        "numpy print options, constantvalue.precision and typecode registration order are left at defaults (outside the statement)",
    ]

    # ------------------------------------------------------------------ generation
    def generate(self, rng, arm, tier, zpool):
        fam = {"flat": True}
        cfg = {"families": fam}
        if arm == "digit-boundary":
            fam["flat_form"] = 0.6
            cfg["n_const"] = rng.randint(2, 4)
            cfg["n_forms"] = rng.randint(1, 3)
        elif arm == "multi-mesh":
            fam["flat_form"] = 0.6
            cfg["n_meshes"] = rng.choice([2, 2, 3])
            cfg["mirror_geo"] = True
        elif arm == "salt":
            fam["shape_derivative"] = 0.35
            fam["mixed_space"] = 0.3
            fam["flat_form"] = 0.1
            cfg["n_coef"] = rng.randint(3, 4)
        elif arm == "shared-measure":
            # program and noise both integrate with the module-level measures; the noise is
            # algorithm-heavy (earlier, unrelated work in the same process)
            cfg["global_measure_p"] = 0.9
            cfg["n_forms"] = rng.randint(1, 2)
            cfg["n_derived"] = rng.randint(2, 5)
        elif arm == "probe":
            # forms that share arguments / spaces / measures with forms derived from them
            cfg["n_meshes"] = rng.choice([1, 2, 2, 3])
            cfg["n_forms"] = rng.randint(1, 3)
            cfg["n_derived"] = rng.randint(3, 8)
            cfg["n_combined"] = rng.randint(1, 4)
            # algorithms that create new counted objects inside (auxiliary coefficients, arguments)
            cfg["derive_bias"] = ["action", "action1", "derivative", "replace", "form_call", "form_call_coefs", "energy_norm", "adjoint", "coordinate_derivative"]
            fam["mixed_space"] = 0.25
            fam["flat_form"] = 0.3
            fam["mesh_sequence"] = 0.35
            cfg["mirror_geo"] = rng.random() < 0.5
        elif arm == "low-stack":
            cfg["indexed_sums"] = rng.choice([2, 4, 8, 12])
            cfg["depth"] = rng.choice([3, 4])
        elif arm == "sweep":
            cfg["n_forms"] = rng.randint(1, 2)
            cfg["n_derived"] = rng.randint(0, 2)
            cfg["depth"] = 2
            fam["flat_form"] = 0.3
        elif arm == "deep":
            cfg["depth"] = rng.choice([4, 5])
            cfg["n_forms"] = rng.randint(2, 4)
        else:
            fam["shape_derivative"] = 0.1
            fam["flat_form"] = 0.15
            fam["mixed_space"] = 0.1
        units = []
        obs_slots = []
        if arm == "demo":
            files = demo_files(zpool.repo)
            f = rng.choice(files)
            outs = list(range(10, 18))
            units.append({"k": "P", "op": ["exec_demo", None, "$REPO/demo/" + f, outs]})
            nxt = 20
            for s in outs:
                obs_slots.append(s)
                if rng.random() < 0.7:
                    kw = rng.choice(
                        [
                            {},
                            {"do_apply_function_pullbacks": True, "do_apply_integral_scaling": True, "do_apply_geometry_lowering": True},
                            {"do_apply_function_pullbacks": True, "do_apply_geometry_lowering": True, "do_cancel_jacobian_products": True},
                        ]
                    )
                    units.append({"k": "P", "op": ["call", nxt, "sim.ops.preprocessed_form", [["$", s]], kw]})
                    obs_slots.append(nxt)
                    nxt += 1
                if rng.random() < 0.3:
                    units.append({"k": "P", "op": ["call", nxt, "ufl.algorithms.expand_derivatives", [["$", s]]]})
                    obs_slots.append(nxt)
                    nxt += 1
        else:
            P = call_planner(zpool, {"kind": "program", "seed": rng.getrandbits(40), "cfg": cfg})
            for op in P["ops"]:
                units.append({"k": "P", "op": op})
            obs_slots = [f[0] for f in P["forms"]] + [f[0] for f in P["derived"]]
            obs_slots = list(dict.fromkeys(obs_slots))
        for s in obs_slots:
            units.append({"k": "obs", "op": ["obs", None, "sig", s]})

        # ---- nodes
        n_pert = rng.choice([1, 2, 2, 3]) if arm not in ("digit-boundary", "multi-mesh") else rng.choice([1, 2])
        nodes = [{"salt": 0, "init": []}]
        for i in range(n_pert):
            if arm in ("digit-boundary", "multi-mesh", "warm", "shared-measure") or (arm == "probe" and rng.random() < 0.6):
                salt = 0
            elif arm == "salt":
                salt = rng.choice(SALTS[1:])
            else:
                salt = rng.choice(SALTS)
            init = []
            if arm in ("digit-boundary", "multi-mesh") or (arm not in ("salt", "warm", "shared-measure") and rng.random() < 0.6):
                kinds = COUNTERS if arm != "multi-mesh" else ["Mesh", "Mesh", "Constant", "Coefficient"]
                for kind in sorted(set(rng.sample(kinds, rng.randint(1, len(set(kinds)))))):
                    v = rng.choice(BOUNDARY[:8]) if rng.random() < 0.8 else rng.choice(BOUNDARY)
                    v = max(0, v - rng.choice([0, 0, 1, 2]))
                    init.append(["setctr", None, kind, v])
            nodes.append({"salt": salt, "init": init})

        # ---- noise: prelude + interleaved, per perturbed node
        noise_progs = {}
        noise_w = {"uniform": 0.5, "warm": 1.0, "faulty-noise": 1.0, "deep": 0.4, "salt": 0.2, "demo": 0.5, "shared-measure": 1.0}.get(arm, 0.25)
        npos = len([u for u in units if u["k"] == "P"])
        inserts = []  # (position among P units, unit)
        for ni in range(1, len(nodes)):
            if rng.random() >= noise_w:
                continue
            base = NOISE_BASE * ni
            Q = call_planner(
                zpool,
                {
                    "kind": "program",
                    "seed": rng.getrandbits(40),
                    "cfg": {
                        "base": base,
                        "n_forms": rng.randint(1, 2),
                        "depth": 2,
                        "keep_failed": True,
                        "n_derived": rng.randint(0, 3) if arm != "shared-measure" else rng.randint(3, 7),
                        "global_measure_p": 0.9 if arm == "shared-measure" else 0.35,
                        "families": {"flat": True},
                        "foreign": rng.random() < 0.5,
                        "exotic_p": rng.choice([0.0, 0.3, 0.6]),
                    },
                },
            )
            qops = list(Q["ops"])
            # observations and comparisons on noise objects warm caches / trigger DAG sharing
            for f in Q["forms"][:2]:
                qops.append(["obs", None, "sig", f[0]])
                qops.append(["obs", None, "hash", f[0]])
            if len(Q["exprs"]) >= 2:
                qops.append(["cmp", None, Q["exprs"][0], Q["exprs"][-1]])
            prelude = rng.random() < 0.5
            for qi, qop in enumerate(qops):
                u = {"k": "noise", "n": ni, "op": qop}
                if arm == "faulty-noise" and qop[0] in ("call", "meth") and rng.random() < 0.25:
                    if rng.random() < 0.7:
                        # constructors execute few UFL lines, algorithms many
                        hi = 4.5 if "algorithms" in str(qop[2]) or "sim.ops" in str(qop[2]) or "derivative" in str(qop[2]) else 1.7
                        u["op"] = ["fault", rng.choice(["interrupt", "interrupt", "memerr"]), int(10 ** rng.uniform(0, hi)), qop]
                    else:
                        u["op"] = ["fault", "stack", rng.choice([4, 8, 15, 30, 60, 120]), qop]
                pos = 0 if prelude else rng.randint(0, npos)
                inserts.append((pos, qi, u))
        # probe noise: read-only observations and public algorithms applied to the program's
        # OWN objects at other times than on the reference node (a signature query, a
        # comparison or an algorithm run on one form is process state for the next one)
        probe_w = {"probe": 1.0, "multi-mesh": 0.5, "uniform": 0.4, "salt": 0.3, "deep": 0.4}.get(arm, 0.25)
        if arm != "demo":
            pidx = [i for i, u in enumerate(units) if u["k"] == "P"]
            made_at = {}
            for k_, i in enumerate(pidx):
                o = units[i]["op"]
                if len(o) > 1 and isinstance(o[1], int):
                    made_at[o[1]] = k_
                if o[0] == "unpack":
                    for x in o[3]:
                        made_at[x] = k_
            fslots = [s for s in dict.fromkeys([f[0] for f in P["forms"]] + [f[0] for f in P["derived"]]) if s in made_at]
            eslots = [s for s in dict.fromkeys(P["exprs"]) if s in made_at]
            coefs = [c for M in P["meshes"] for c in M["coefs"] if c in made_at]
            for ni in range(1, len(nodes)):
                if not fslots or rng.random() >= probe_w:
                    continue
                for j in range(rng.randint(2, 9)):
                    out = NOISE_BASE * ni + 500_000 + j
                    q = rng.random()
                    s_ = rng.choice(fslots)
                    lo = made_at[s_] + 1
                    msq = [(f_[0], P["meshes"][f_[2]]) for f_ in P["forms"] if f_[2] < len(P["meshes"]) and P["meshes"][f_[2]].get("msq") and f_[0] in made_at]
                    if msq and rng.random() < 0.7:
                        # preprocessing with coefficient splitting of a sub-form / the same form
                        # earlier than on the reference node (new coefficients are created inside)
                        s_, M_ = rng.choice(msq)
                        lo = made_at[s_] + 1
                        cs = [c for c in M_["coefs"] if c in made_at]
                        kw = {"do_apply_function_pullbacks": True, "do_apply_integral_scaling": True, "do_apply_geometry_lowering": True, "do_replace_functions": True}
                        if cs:
                            kw["coefficients_to_split"] = ["t"] + [["$", c] for c in rng.sample(cs, rng.randint(1, len(cs)))]
                        op = ["call", out, rng.choice(["sim.ops.preprocessed_form", "sim.ops.form_data"]), [["$", s_]], kw]
                    elif q < 0.12:
                        # read-only accessors that fill the lazy caches of a form in another order
                        op = ["meth", out, ["$", s_], rng.choice(["coefficient_numbering", "constant_numbering", "terminal_numbering", "domain_numbering", "subdomain_data", "ufl_domains", "ufl_domain", "constants", "coefficients", "arguments", "geometric_dimension", "max_subdomain_ids", "base_form_operators", "empty", "ufl_cell"]), []]
                    elif q < 0.35:
                        op = ["obs", None, rng.choice(["sig", "sig", "sig", "hash", "args", "coeffs", "repr", "str", "meta"]), s_]
                    elif q < 0.45 and eslots:
                        s_ = rng.choice(eslots)
                        lo = made_at[s_] + 1
                        op = ["obs", None, rng.choice(["hash", "repr", "str", "sig"]), s_]
                    elif q < 0.55 and len(fslots) + len(eslots) > 1:
                        pool_ = fslots if rng.random() < 0.5 or len(eslots) < 2 else eslots
                        a_, b_ = rng.choice(pool_), rng.choice(pool_)
                        lo = max(made_at[a_], made_at[b_]) + 1
                        op = ["cmp", None, a_, b_]
                    elif q < 0.62:
                        op = ["roundtrip", out, s_, "pickle"]
                    elif q < 0.72 and coefs:
                        c_ = rng.choice(coefs)
                        lo = max(lo, made_at[c_] + 1)
                        op = ["call", out, "ufl.derivative", [["$", s_], ["$", c_]]]
                    else:
                        fn = rng.choice(
                            [
                                "ufl.action",
                                "ufl.action",
                                "ufl.adjoint",
                                "ufl.algorithms.expand_derivatives",
                                "sim.ops.preprocessed_form",
                                "sim.ops.preprocessed_form",
                                "sim.ops.form_data",
                                "ufl.extract_blocks",
                                "ufl.lhs",
                                "ufl.rhs",
                                "ufl.algorithms.renumbering.renumber_indices",
                                "ufl.algorithms.apply_algebra_lowering.apply_algebra_lowering",
                                "ufl.algorithms.strip_terminal_data",
                                "operator.neg",
                            ]
                        )
                        op = ["call", out, fn, [["$", s_]]]
                        if fn.startswith("sim.ops.") and rng.random() < 0.5:
                            op.append({"do_apply_function_pullbacks": True, "do_apply_integral_scaling": True, "do_apply_geometry_lowering": True})
                    if arm in ("faulty-noise", "probe") and op[0] in ("obs", "call", "meth", "cmp", "roundtrip") and rng.random() < 0.25:
                        # the query / algorithm on the program's own object is cut short
                        if rng.random() < 0.75:
                            par = int(10 ** rng.uniform(0, 4.3))
                            if rng.random() < 0.4:
                                # the n-th line event inside one state-carrying module
                                par = {"n": int(10 ** rng.uniform(0, 2.5)), "files": [rng.choice(["form.py", "integral.py", "measure.py", "algorithms/signature.py", "algorithms/domain_analysis.py", "algorithms/formdata.py", "algorithms/analysis.py", "utils/sorting.py", "sorting.py", "algorithms/renumbering.py"])]}
                            op = ["fault", rng.choice(["interrupt", "interrupt", "memerr"]), par, op]
                        else:
                            op = ["fault", "stack", rng.choice([4, 8, 15, 30, 60, 120]), op]
                    inserts.append((rng.randint(lo, npos), 10**6 + j, {"k": "noise", "n": ni, "op": op, "probe": 1}))
        # echo noise: one of the program's own algorithm calls is made a first time earlier on
        # the perturbed node (result discarded), so that the program's own call is the second
        # application to the same object
        if arm != "demo":
            refs_of = lambda x, acc: ([acc.append(x[1])] if isinstance(x, list) and len(x) == 2 and x[0] == "$" and isinstance(x[1], int) else [refs_of(y, acc) for y in (x.values() if isinstance(x, dict) else x)] if isinstance(x, (list, dict)) else None)  # noqa: E731
            cand = []
            for k_, i in enumerate(pidx):
                o = units[i]["op"]
                if o[0] == "call" and isinstance(o[2], str) and (o[2].startswith("ufl.") or o[2].startswith("sim.ops.")) and any(t in o[2] for t in ("action", "adjoint", "derivative", "replace", "lhs", "rhs", "system", "extract_blocks", "preprocessed_form", "form_data", "expand_", "apply_", "renumber", "energy_norm", "functional")):
                    acc = []
                    refs_of(o[3:], acc)
                    if acc and all(a_ in made_at for a_ in acc):
                        cand.append((k_, o, max(made_at[a_] for a_ in acc) + 1))
            for ni in range(1, len(nodes)):
                if not cand or rng.random() >= (0.7 if arm == "probe" else 0.2):
                    continue
                for j in range(rng.randint(1, 3)):
                    k_, o, lo = rng.choice(cand)
                    if lo > k_:
                        continue
                    o2 = [o[0], NOISE_BASE * ni + 600_000 + j] + list(o[2:])
                    inserts.append((rng.randint(lo, k_), 2 * 10**6 + j, {"k": "noise", "n": ni, "op": o2, "probe": 1}))
        # targeted foreign objects: an object of the same kind with an explicit small id /
        # count (what unpickling creates) right between two of the program's own creations
        if arm != "demo":
            for kind_, fn_ in (("Mesh", "ufl.Mesh"), ("Coefficient", "ufl.Coefficient"), ("Constant", "ufl.Constant")):
                sites = [k_ for k_, i in enumerate(pidx) if units[i]["op"][0] == "call" and units[i]["op"][2] == fn_ and len(units[i]["op"]) == 4]
                if len(sites) < 2:
                    continue
                for ni in range(1, len(nodes)):
                    if rng.random() >= (0.3 if arm in ("multi-mesh", "digit-boundary", "probe", "restart") else 0.12):
                        continue
                    j = rng.randrange(len(sites) - 1)
                    first = units[pidx[sites[j]]]["op"]
                    out = NOISE_BASE * ni + 700_000 + len(inserts)
                    key = "ufl_id" if kind_ == "Mesh" else "count"
                    op = ["call", out, fn_, list(first[3]), {key: rng.choice([0, 0, 1, 2, 5])}]
                    inserts.append((rng.randint(sites[j] + 1, sites[j + 1]), 3 * 10**6, {"k": "noise", "n": ni, "op": op}))
        # counter noise
        for ni in range(1, len(nodes)):
            for _ in range(rng.randint(0, 4)):
                kind = rng.choice(COUNTERS)
                if rng.random() < 0.6:
                    op = ["bump", None, kind, rng.choice([1, 1, 2, 3, 5, 7, 10, 50])]
                else:
                    op = ["setctr", None, kind, rng.choice(BOUNDARY)]
                inserts.append((rng.randint(0, npos), -1, {"k": "noise", "n": ni, "op": op}))
        # merge inserts into the unit list (stable by position, then original order)
        if inserts:
            by_pos = {}
            for pos, qi, u in inserts:
                by_pos.setdefault(pos, []).append((u["n"], qi, u))
            out = []
            pi = 0
            for u in units:
                if u["k"] == "P":
                    for _, _, nu in sorted(by_pos.get(pi, []), key=lambda t: (t[0], t[1] if t[1] >= 0 else 10**9)):
                        out.append(nu)
                    pi += 1
                out.append(u)
            # noise scheduled after the last P unit goes before the observations
            tail = []
            for p in sorted(k for k in by_pos if k >= pi):
                tail += [nu for _, _, nu in sorted(by_pos[p], key=lambda t: (t[0], t[1] if t[1] >= 0 else 10**9))]
            if tail:
                first_obs = next((i for i, u in enumerate(out) if u["k"] == "obs"), len(out))
                out = out[:first_obs] + tail + out[first_obs:]
            units = out
        # checkpoint / restart: a perturbed node pickles everything it has built so far,
        # crashes, is restarted as a fresh process, reloads the checkpoint and carries on
        if arm == "restart" or (arm in ("uniform", "salt", "probe") and rng.random() < 0.15):
            pidx = [i for i, u in enumerate(units) if u["k"] == "P"]
            if len(pidx) > 4:
                at = pidx[rng.randint(max(1, len(pidx) // 3), len(pidx) - 1)]
                u_ = {"k": "restart", "n": rng.randrange(1, len(nodes))}
                if rng.random() < 0.5:
                    u_["salt"] = rng.choice(SALTS)  # restarted under another hash seed
                units.insert(at, u_)
        # crash-point sweep: a perturbed node rebuilds the program several times; in the j-th
        # rebuild the first signature query of every form is cut short at the (n0+j)-th line
        # event inside one state-carrying module and then repeated
        if arm == "sweep":
            fname = rng.choice(["form.py", "form.py", "algorithms/signature.py", "integral.py", "algorithms/analysis.py", "utils/sorting.py", "sorting.py", "domain.py"])
            kind = rng.choice(["interrupt", "interrupt", "memerr"])
            n0 = rng.randint(1, 60)
            for j in range(1, rng.randint(4, 9)):
                units.append({"k": "again", "n": 1, "j": j, "cut": {"kind": kind, "par": {"n": n0 + j - 1, "files": [fname]}}})
            return {"nodes": nodes, "units": units}
        # second build in the same process
        if arm in ("warm", "shared-measure") or rng.random() < 0.3:
            units.append({"k": "again", "n": rng.randrange(len(nodes))})
        plan = {"nodes": nodes, "units": units}
        if arm == "low-stack":
            # one perturbed node builds the program with little interpreter stack left (a
            # caller deep inside its own code): every op either fails loudly or gives the
            # same object
            plan["lowstack"] = {str(rng.randrange(1, len(nodes))): rng.choice([12, 16, 20, 25, 30, 40, 60, 100])}
        return plan

    # ------------------------------------------------------------------ expansion
    def expand(self, plan):
        steps, uos, tags = [], [], []
        nn = len(plan["nodes"])
        units = plan["units"]
        for ui, u in enumerate(units):
            k = u["k"]
            if k in ("P", "obs"):
                for n in range(nn):
                    ls = (plan.get("lowstack") or {}).get(str(n))
                    steps.append([n, u["op"] if ls is None or k == "obs" else ["lowstack", ls, u["op"]]])
                    uos.append(ui)
                    tags.append(0)
            elif k == "noise":
                if u["n"] < nn:
                    steps.append([u["n"], u["op"]])
                    uos.append(ui)
                    tags.append(0)
            elif k == "restart":
                if u["n"] < nn:
                    for rop in (["sendall", "ck"], ["crash", u.get("salt")], ["recvall", "ck"]):
                        steps.append([u["n"], rop])
                        uos.append(ui)
                        tags.append(0)
            elif k == "again":
                if u["n"] >= nn:
                    continue
                off = AGAIN_OFF * u.get("j", 1)
                for uj, v in enumerate(units):
                    if v["k"] in ("P", "obs"):
                        if v["k"] == "obs" and u.get("cut"):
                            # the first query of this rebuilt form is cut short, then repeated
                            steps.append([u["n"], ["fault", u["cut"]["kind"], u["cut"]["par"], remap(v["op"], off)]])
                            uos.append(uj)
                            tags.append(2)
                        steps.append([u["n"], remap(v["op"], off)])
                        uos.append(uj)
                        tags.append(1)
        return {"nodes": plan["nodes"], "steps": steps, "unit_of_step": uos, "tags": tags}

    def removable(self, plan):
        # observations are kept unless their program is gone; everything else may go
        return [i for i, u in enumerate(plan["units"]) if u["k"] != "obs"] + [i for i, u in enumerate(plan["units"]) if u["k"] == "obs"]

    # ------------------------------------------------------------------ oracle
    def check(self, plan, xp, history):
        units = plan["units"]
        uos = xp["unit_of_step"]
        tags = xp["tags"]
        nodes = plan["nodes"]
        res = {}  # obs unit -> list of (node, pass, result)
        faults = {"interrupt": {"configured": 0, "fired": 0}, "memerr": {"configured": 0, "fired": 0}, "stack": {"configured": 0, "fired": 0}}
        probes = {"noise_ops": 0, "noise_aborted_naturally": 0, "torn_tables_after_stack_fault": 0, "obs_total": 0, "obs_on_perturbed_node": 0, "again_builds": 0, "program_op_failed_somewhere": 0, "restarts": 0, "restart_incomplete": 0, "lowstack_op_ran_out_of_stack": 0, "first_query_of_rebuilt_form_cut_short": 0}
        torn = set()
        incomplete = set()
        pfail = {}
        for ev in history:
            si, node, op, r = ev
            if si < 0:
                continue
            ui = uos[si]
            k = units[ui]["k"]
            if k == "obs" and op[0] == "fault":
                faults[op[1]]["configured"] += 1
                v = r.get("ok") or {}
                if v.get("fired"):
                    faults[op[1]]["fired"] += 1
                    probes["first_query_of_rebuilt_form_cut_short"] = probes.get("first_query_of_rebuilt_form_cut_short", 0) + 1
            elif k == "obs":
                res.setdefault(ui, []).append((node, tags[si], r))
            elif k == "noise":
                probes["noise_ops"] += 1
                if op[0] == "fault":
                    faults[op[1]]["configured"] += 1
                    v = r.get("ok") or {}
                    if v.get("fired"):
                        faults[op[1]]["fired"] += 1
                    if v.get("integrity"):
                        torn.add(node)
                        probes["torn_tables_after_stack_fault"] += 1
                elif "raised" in r:
                    probes["noise_aborted_naturally"] += 1
            elif k == "restart":
                if op[0] == "sendall":
                    v = r.get("ok") if isinstance(r, dict) else None
                    probes["restarts"] = probes.get("restarts", 0) + 1
                    if not isinstance(v, dict) or v.get("skipped"):
                        # something the program built does not pickle: the restarted process
                        # cannot continue the same program, its observations are not judged
                        incomplete.add(node)
                        probes["restart_incomplete"] = probes.get("restart_incomplete", 0) + 1
                elif op[0] == "recvall" and "ok" not in r:
                    incomplete.add(node)
            elif k == "P":
                if "ok" not in r:
                    pfail.setdefault(ui, set()).add(node)
                    if op[0] == "lowstack" and r.get("raised") == "RecursionError":
                        # a loud failure: this node did not build the same program
                        incomplete.add(node)
                        probes["lowstack_op_ran_out_of_stack"] = probes.get("lowstack_op_ran_out_of_stack", 0) + 1
        probes["program_op_failed_somewhere"] = len(pfail)
        probes["again_builds"] = sum(1 for u in units if u["k"] == "again")
        viols = []
        nontrivial = False
        for ui, lst in sorted(res.items()):
            ref = [r for n, t, r in lst if n == 0 and t == 0]
            if not ref:
                continue
            ref = ref[0]
            if "skip" in ref and all("skip" in r for _, _, r in lst):
                continue
            probes["obs_total"] += 1
            for n, t, r in lst:
                if n == 0 and t == 0:
                    continue
                if n in incomplete:
                    continue
                pert = nodes[n]["salt"] != nodes[0]["salt"] or bool(nodes[n].get("init")) or t == 1 or str(n) in (plan.get("lowstack") or {}) or any(u["k"] in ("noise", "restart") and u.get("n") == n for u in units)
                if pert:
                    probes["obs_on_perturbed_node"] += 1
                    nontrivial = True
                if r != ref:
                    v = {
                        "clause": "S1-signature-differs",
                        "unit": ui,
                        "fingerprint": "sig",
                        "detail": {
                            "slot": units[ui]["op"][3],
                            "node": n,
                            "second_build": bool(t),
                            "node_salt": nodes[n]["salt"],
                            "node_init": nodes[n].get("init"),
                            "ref": _short(ref),
                            "got": _short(r),
                        },
                    }
                    if n in torn:
                        v["beyond"] = True
                        v["clause"] = "beyond:signature-differs-after-torn-intern-table"
                    viols.append(v)
        state = {
            "salts": sorted({nc["salt"] for nc in nodes}),
            "ctr_digits": sorted({(op[2], len(str(op[3]))) for nc in nodes for op in nc.get("init", [])}),
            "nodes": len(nodes),
        }
        return viols, {"faults": faults, "probes": probes, "state": state, "nontrivial": nontrivial}

    min_clause_only = True

    def final_fingerprint(self, plan, viol):
        """Which perturbations survive minimisation: that is the diagnosis."""
        n = viol["detail"]["node"]
        nodes = plan["nodes"]
        parts = set()
        if n < len(nodes):
            if nodes[n]["salt"] != nodes[0]["salt"]:
                parts.add("salt")
            for op in nodes[n].get("init", []):
                parts.add("ctr:" + op[2])
        for u in plan["units"]:
            if u["k"] == "noise" and u.get("n") == n:
                op = u["op"]
                if op[0] == "fault":
                    parts.add("fault:" + op[1])
                elif op[0] in ("bump", "setctr"):
                    parts.add("ctr:" + op[2])
                elif u.get("probe") and op[0] == "fault":
                    parts.add("fault:" + op[1] + ":probe")
                elif u.get("probe"):
                    parts.add("probe:" + (op[2] if op[0] in ("obs", "call") else op[3] if op[0] == "meth" else op[0]))
                else:
                    parts.add("noise")
        if str(n) in (plan.get("lowstack") or {}):
            parts.add("low-stack")
        for u in plan["units"]:
            if u["k"] == "restart" and u.get("n") == n:
                parts.add("restart" if u.get("salt") in (None, nodes[n]["salt"] if n < len(nodes) else None) else "restart-other-salt")
        if viol["detail"].get("second_build"):
            parts.add("again")
            if any(u["k"] == "again" and u.get("cut") for u in plan["units"]):
                parts.add("first-query-cut-short")
        return "+".join(sorted(parts)) or "none"

    # ------------------------------------------------------------------ shrinking beyond ddmin
    def simplify(self, plan, phase="post", target=None):
        nodes = plan["nodes"]
        units = plan["units"]
        if phase == "pre" and target is not None:
            # backward slice of the diverging form; only its own observation is kept
            from sim.framework import slice_candidate

            slot = target["detail"]["slot"]
            q = slice_candidate(plan, [slot], is_program=lambda u: u["k"] in ("P", "obs"))
            if q is not None:
                q["units"] = [u for u in q["units"] if u["k"] != "obs" or u["op"][3] == slot]
                yield q
        # drop a perturbed node
        if len(nodes) > 2:
            for i in range(1, len(nodes)):
                q = dict(plan)
                q["nodes"] = nodes[:i] + nodes[i + 1 :]
                nu = []
                for u in units:
                    if u["k"] in ("noise", "again", "restart"):
                        if u["n"] == i:
                            continue
                        if u["n"] > i:
                            u = dict(u, n=u["n"] - 1)
                    nu.append(u)
                q["units"] = nu
                yield q
        # neutralise salt / counter presets
        for i in range(1, len(nodes)):
            if nodes[i]["salt"] != 0:
                q = dict(plan)
                q["nodes"] = nodes[:i] + [dict(nodes[i], salt=0)] + nodes[i + 1 :]
                yield q
            init = nodes[i].get("init", [])
            for j in range(len(init)):
                q = dict(plan)
                q["nodes"] = nodes[:i] + [dict(nodes[i], init=init[:j] + init[j + 1 :])] + nodes[i + 1 :]
                yield q
            for j, op in enumerate(init):
                for v in (9, 10):
                    if op[3] > v + 1:
                        q = dict(plan)
                        q["nodes"] = nodes[:i] + [dict(nodes[i], init=init[:j] + [[op[0], op[1], op[2], v]] + init[j + 1 :])] + nodes[i + 1 :]
                        yield q
        for i, u in enumerate(units):
            if u["k"] == "restart" and u.get("salt") is not None:
                q = dict(plan)
                q["units"] = units[:i] + [{k_: v_ for k_, v_ in u.items() if k_ != "salt"}] + units[i + 1 :]
                yield q
        if phase == "pre":
            return
        # un-fault noise ops
        for i, u in enumerate(units):
            if u["k"] == "noise" and u["op"][0] == "fault":
                q = dict(plan)
                q["units"] = units[:i] + [dict(u, op=u["op"][3])] + units[i + 1 :]
                yield q
        # replace expression ops by one of their operands
        from sim.framework import bypass_candidates

        yield from bypass_candidates(plan, lambda u: u["k"] == "P")


def _short(r):
    if isinstance(r, dict) and isinstance(r.get("ok"), str):
        return r["ok"][:16]
    return r
