"""User-side subclasses of UFL's counted terminals, the way downstream libraries define
them (``class Function(ufl.Coefficient)``).  They add no data: everything observable is
UFL's own behaviour for a subclass instance."""

import ufl


class Function(ufl.Coefficient):
    """A discrete function of a downstream library."""

    __slots__ = ()


class Parameter(ufl.Constant):
    """A named constant of a downstream library."""

    __slots__ = ()
