"""Node-side op interpreter (DESIGN 2, 'Op language').

A node holds a slot table (slot -> object) and executes one JSON op at a time.  Every
result is a JSON value built only from history-independent observations: no ``id()``,
no default ``object.__repr__``, exceptions by type name only.
"""

import base64
import gc
import hashlib
import importlib
import itertools
import operator
import os
import pickle
import sys

import ufl
import ufl.algorithms
import ufl.classes
from ufl.algorithms.analysis import extract_type
from ufl.algorithms.signature import compute_expression_signature, compute_form_signature
from ufl.core.expr import Expr
from ufl.form import BaseForm, Form
from ufl.utils.counted import Counted

from sim import elements, faults


class Skip(Exception):
    """An op whose inputs are not available: skipped deterministically."""


def _sha(s):
    if not isinstance(s, bytes):
        s = s.encode("utf-8", "backslashreplace")
    return hashlib.sha1(s).hexdigest()[:16]


_ALLOWED_ROOTS = ("ufl", "operator", "sim")
_BUILTINS = {
    "abs": abs,
    "hash": hash,
    "repr": repr,
    "str": str,
    "bool": bool,
    "len": len,
    "tuple": tuple,
    "list": list,
    "dict": dict,
    "float": float,
    "complex": complex,
    "int": int,
    "set": set,
    "frozenset": frozenset,
    "sum": sum,
    "pow": pow,
}

_resolve_cache = {}


def resolve(name):
    """Resolve a dotted name under the whitelisted roots."""
    f = _resolve_cache.get(name)
    if f is not None:
        return f
    parts = name.split(".")
    if parts[0] == "builtins" and len(parts) == 2 and parts[1] in _BUILTINS:
        f = _BUILTINS[parts[1]]
    else:
        if parts[0] not in _ALLOWED_ROOTS:
            raise Skip(f"name {name}")
        # Attribute access first, the way user code spells it (``ufl.action`` is the
        # function re-exported by the package although a sub-module of that name exists);
        # a sub-module is imported only when the attribute is missing.
        obj = importlib.import_module(parts[0])
        for i, p in enumerate(parts[1:], 1):
            if p.startswith("__"):
                raise Skip(f"name {name}")
            if hasattr(obj, p):
                obj = getattr(obj, p)
                continue
            try:
                obj = importlib.import_module(".".join(parts[: i + 1]))
            except ImportError:
                raise Skip(f"name {name}")
        f = obj
    _resolve_cache[name] = f
    return f


# --------------------------------------------------------------------------- helpers
# (callable from plans as "sim.ops.<name>")


def preprocessed_form(form, **options):
    """compute_form_data(...).preprocessed_form."""
    from ufl.algorithms import compute_form_data

    return compute_form_data(form, **options).preprocessed_form


def form_data(form, **options):
    from ufl.algorithms import compute_form_data

    return compute_form_data(form, **options)


def zero_like(e):
    """An integrand map under which everything vanishes."""
    from ufl.constantvalue import Zero

    return Zero(e.ufl_shape, e.ufl_free_indices, e.ufl_index_dimensions) if isinstance(e, Expr) else e


def grouped_form(form, **kw):
    """First step of the documented low-level route to FormData."""
    from ufl.algorithms.apply_algebra_lowering import apply_algebra_lowering
    from ufl.algorithms.apply_derivatives import apply_derivatives
    from ufl.algorithms.domain_analysis import group_form_integrals

    form = apply_derivatives(apply_algebra_lowering(form))
    return group_form_integrals(form, form.ufl_domains(), **kw)


def formdata_lowlevel(grouped, **kw):
    """build_integral_data + FormData constructed directly on a grouped form."""
    from ufl.algorithms.domain_analysis import build_integral_data
    from ufl.algorithms.formdata import FormData

    return FormData(grouped, build_integral_data(grouped.integrals()), **kw)


def sort_elements_of(form):
    """ufl.algorithms.sort_elements applied to the elements of a form."""
    from ufl.algorithms import extract_elements, sort_elements

    return sort_elements(list(extract_elements(form)))


def reorder_extra_domain_maps(form):
    """The same form with the extra-domain map of every integral handed over in reversed key
    order (dict equality ignores key order, so the result must equal the input)."""
    itgs = []
    for itg in form.integrals():
        m = itg.extra_domain_integral_type_map()
        itgs.append(itg.reconstruct(extra_domain_integral_type_map=dict(reversed(list(m.items())))) if len(m) > 1 else itg)
    return Form(itgs)


def fd_integrals_form(fd):
    """Re-assemble the integrals of FormData.integral_data into one form (order kept)."""
    itgs = []
    for itd in fd.integral_data:
        itgs.extend(itd.integrals)
    return Form(itgs)


def signature_in_context(form, other):
    """ufl.algorithms.compute_form_signature(form, numbering of form + other): the public
    signature function called the way a form compiler does for a sub-form."""
    from ufl.algorithms import compute_form_signature as cfs

    big = form + other
    ren = {}
    ren.update(big.domain_numbering())
    ren.update(big.terminal_numbering())
    return cfs(form, ren)


def is_cyclic(x, limit=200000):
    """True if the operand graph reachable from an expression / form contains a cycle
    (a corrupted node that is its own descendant).  Iterative three-colour DFS."""
    roots = []
    if isinstance(x, Form):
        roots = [itg.integrand() for itg in x.integrals()]
    elif isinstance(x, Expr):
        roots = [x]
    state = {}
    n = 0
    for r in roots:
        stack = [(r, iter(getattr(r, "ufl_operands", ())))]
        state[id(r)] = 1
        while stack:
            node, it = stack[-1]
            n += 1
            if n > limit:
                return True
            try:
                c = next(it)
            except StopIteration:
                state[id(node)] = 2
                stack.pop()
                continue
            st = state.get(id(c))
            if st == 1:
                return True
            if st is None:
                state[id(c)] = 1
                stack.append((c, iter(getattr(c, "ufl_operands", ()))))
    return False


def reapply_root(e):
    """Apply the (single-operand) operator at the root of ``e`` to ``e`` once more, through
    the public constructor: abs(abs(f)), conj(conj(f)), transpose(transpose(A)), ..."""
    if not isinstance(e, Expr) or e._ufl_is_terminal_ or len(e.ufl_operands) != 1:
        raise Skip("reapply")
    return type(e)(e)


def fd_touch(fd):
    """Read the public attributes of FormData (lazily computed ones included)."""
    out = []
    for name in (
        "original_form",
        "preprocessed_form",
        "integral_data",
        "rank",
        "num_coefficients",
        "reduced_coefficients",
        "original_coefficient_positions",
        "function_replace_map",
        "coefficient_elements",
        "unique_sub_elements",
        "max_subdomain_ids",
        "geometric_dimension",
    ):
        try:
            v = getattr(fd, name)
            out.append((name, type(v).__name__))
        except BaseException as e:  # noqa: B036
            out.append((name, "!" + type(e).__name__))
    for itd in getattr(fd, "integral_data", []) or []:
        str(itd)
    return out


def subexprs(obj, k, skip=0):
    """k nodes of the expression DAG(s) of a form / expression in pre-order, after
    skipping ``skip`` (wrapping around)."""
    from ufl.corealg.traversal import unique_pre_traversal

    nodes = []
    if isinstance(obj, Form):
        for itg in obj.integrals():
            nodes.extend(unique_pre_traversal(itg.integrand()))
    else:
        nodes.extend(unique_pre_traversal(obj))
    if not nodes:
        return []
    skip = skip % len(nodes)
    nodes = nodes[skip:] + nodes[:skip]
    return nodes[:k]


def getitem(a, idx):
    return a[idx]


def call(f, *args, **kw):
    return f(*args, **kw)


def form_of_expr(e, measure):
    return e * measure


def make_measure(kind, **kw):
    return ufl.Measure(kind, **kw)


def nth(seq, i):
    return seq[i]


def domain_of(obj):
    """The unique mesh of an expression / form (used after a restart to reach loaded meshes)."""
    if isinstance(obj, BaseForm):
        return obj.ufl_domains()[0]
    from ufl.domain import extract_unique_domain

    return extract_unique_domain(obj)


def space_of(obj):
    return obj.ufl_function_space()


def count_of(obj):
    return obj.count()


def first_of_type(obj, clsname, i=0):
    """i-th (by repr order) sub-terminal/sub-expression of a class inside obj."""
    cls = getattr(ufl.classes, clsname)
    found = sorted(extract_type(obj, cls), key=repr)
    return found[i]


def identity(x):
    return x


def exec_demo(path):
    """Execute a demo file; return its forms (deterministic order)."""
    ns = {}
    with open(path) as f:
        src = f.read()
    tdir = os.path.join(os.path.dirname(os.path.dirname(os.path.abspath(path))), "test")
    if tdir not in sys.path:
        sys.path.append(tdir)  # the demos import the test-suite's element doubles
    exec(compile(src, path, "exec"), ns)
    out = []
    for k in sorted(ns):
        v = ns[k]
        if isinstance(v, Form):
            out.append(v)
    return out


def expr_renumbering(expr):
    """Renumbering for compute_expression_signature: per counted class by count; domains in
    order of (ufl_id-free) first appearance in a deterministic traversal."""
    from ufl.corealg.traversal import unique_pre_traversal
    from ufl.domain import extract_domains

    by = {}
    for t in extract_type(expr, Counted):
        by.setdefault(t._counted_class.__name__, set()).add(t)
    ren = {}
    for k in sorted(by):
        for i, t in enumerate(sorted(by[k], key=lambda x: x.count())):
            ren[t] = i
    doms = []
    for n in unique_pre_traversal(expr):
        if n._ufl_is_terminal_:
            for d in extract_domains(n):
                for m in getattr(d, "meshes", [d]):
                    if m not in doms:
                        doms.append(m)
    for i, d in enumerate(doms):
        ren[d] = i
    return ren


def expr_signature(expr):
    return compute_expression_signature(expr, expr_renumbering(expr))


# ------------------------------------------------------------------- observations


def _canon_md(md):
    from ufl.algorithms.domain_analysis import canonicalize_metadata

    return repr(canonicalize_metadata(md))


def obs_sig(x):
    if isinstance(x, Form):
        return x.signature()
    if isinstance(x, BaseForm):
        return _sha(repr(x))  # no signature for general base forms: not used by oracles
    if isinstance(x, Expr):
        return expr_signature(x)
    raise Skip("sig")


def obs_sig_fresh(x):
    """Signature recomputed from scratch, bypassing every lazy cache of the form."""
    if isinstance(x, Form):
        f = Form(list(x.integrals()))
        return compute_form_signature(f, f._compute_renumbering())
    return obs_sig(x)


def obs_value(x):
    """Point evaluation with UFL's own evaluator at a fixed point (differential use only)."""
    if not isinstance(x, Expr):
        raise Skip("value")
    from ufl.domain import extract_domains

    from ufl.classes import ConstantValue, MultiIndex, SpatialCoordinate
    from ufl.corealg.traversal import traverse_unique_terminals

    for t in traverse_unique_terminals(x):
        if not isinstance(
            t, (ufl.classes.Coefficient, ufl.classes.Constant, ConstantValue, MultiIndex, SpatialCoordinate)
        ):
            raise Skip("value-terminal")
    doms = extract_domains(x)
    gdim = doms[0].geometric_dimension if doms else 2
    pt = (0.31, 0.17, 0.43)[:gdim]
    mapping = {}
    from ufl.classes import Coefficient, Constant

    def mk(shape, seedv):
        def rec(sh, off):
            if not sh:
                return 0.25 + 0.125 * ((seedv * 7 + off * 3) % 11)
            return [rec(sh[1:], off * sh[0] + i + 1) for i in range(sh[0])]

        return rec(tuple(shape), 0)

    for c in extract_type(x, Coefficient):
        mapping[c] = mk(c.ufl_shape, c.count())
    for c in extract_type(x, Constant):
        mapping[c] = mk(c.ufl_shape, c.count() + 5)
    v = x(pt, mapping)
    return repr(v)


def obs(kind, x):
    if kind == "sig":
        return obs_sig(x)
    if kind == "sigfresh":
        return obs_sig_fresh(x)
    if kind == "repr":
        return _sha(repr(x))
    if kind == "reprfull":
        return repr(x)
    if kind == "str":
        return _sha(str(x))
    if kind == "hash":
        return hash(x)
    if kind == "shape":
        return [list(x.ufl_shape), len(x.ufl_free_indices), list(x.ufl_index_dimensions)]
    if kind == "args":
        return [repr(a) for a in x.arguments()]
    if kind == "coeffs":
        return [repr(a) for a in x.coefficients()]
    if kind == "consts":
        return [repr(a) for a in x.constants()]
    if kind == "meta":
        return [
            [it.integral_type(), repr(it.subdomain_id()), _canon_md(it.metadata())]
            for it in x.integrals()
        ]
    if kind == "value":
        return obs_value(x)
    if kind == "type":
        return type(x).__name__
    if kind == "count":
        return x.count()
    if kind == "nintegrals":
        return len(x.integrals())
    if kind == "rank":
        return len(x.arguments())
    raise Skip(f"obs {kind}")


COUNTERS = {
    "Index": ("ufl.core.multiindex", "Index"),
    "Coefficient": ("ufl.coefficient", "Coefficient"),
    "Constant": ("ufl.constant", "Constant"),
    "Label": ("ufl.variable", "Label"),
    "Matrix": ("ufl.matrix", "Matrix"),
    "BaseFormOperator": ("ufl.core.base_form_operator", "BaseFormOperator"),
}


def _counter_class(kind):
    mod, name = COUNTERS[kind]
    return getattr(importlib.import_module(mod), name)


def counter_peek(kind):
    """Current value of a creation counter, without advancing it."""
    if kind == "Mesh":
        from ufl.domain import Mesh

        return Mesh._ufl_global_id
    cls = _counter_class(kind)
    c = cls._counter
    if c is None:
        return 0
    # itertools.count has no peek; its repr is 'count(n)'
    r = repr(c)
    return int(r[r.index("(") + 1 : r.index(")")])


def counter_raise(kind, value):
    """Raise a creation counter to ``value`` (never lowers it)."""
    cur = counter_peek(kind)
    if value <= cur:
        return cur
    if kind == "Mesh":
        from ufl.domain import Mesh

        Mesh._ufl_global_id = value
    else:
        _counter_class(kind)._counter = itertools.count(value)
    return value


class Node:
    """One simulated UFL process."""

    def __init__(self, repo):
        self.repo = repo
        self.slots = {}
        self.trace_prefixes = (repo.rstrip("/") + "/ufl/",)
        self.evalns = elements.eval_namespace()
        self.newtypes = {}
        self.ext = {}  # scenario-specific op handlers registered by sim.* modules
        self.fault_log = []

    # ---- argument decoding
    def dec(self, x):
        if isinstance(x, list):
            if x and isinstance(x[0], str):
                tag = x[0]
                if tag == "$":
                    try:
                        return self.slots[x[1]]
                    except KeyError:
                        raise Skip(f"slot {x[1]}")
                if tag == "t":
                    return tuple(self.dec(y) for y in x[1:])
                if tag == "l":
                    return [self.dec(y) for y in x[1:]]
                if tag == "c":
                    return complex(x[1], x[2])
                if tag == "cell":
                    return getattr(ufl, x[1])
                if tag == "sob":
                    import ufl.sobolevspace as sb

                    return getattr(sb, x[1])
                if tag == "pb":
                    import ufl.pullback as pb

                    return getattr(pb, x[1])
                if tag == "fn":
                    return resolve(x[1])
                if tag == "ell":
                    return Ellipsis
                if tag == "slice":
                    return slice(None)
                if tag == "d":
                    return {self.dec(k): self.dec(v) for k, v in x[1]}
                if tag == "none":
                    return None
                if tag == "set":
                    return set(self.dec(y) for y in x[1:])
                if tag == "np":
                    import numpy

                    return getattr(numpy, x[1])(x[2])
            return [self.dec(y) for y in x]
        if isinstance(x, dict):
            return {k: self.dec(v) for k, v in x.items()}
        return x

    def get(self, slot):
        try:
            return self.slots[slot]
        except KeyError:
            raise Skip(f"slot {slot}")

    def put(self, out, value):
        if out is not None:
            self.slots[out] = value

    def invalidate(self, out):
        if out is not None:
            self.slots.pop(out, None)

    # ---- op execution
    def run(self, op):
        """Execute one op; never raises (except SystemExit)."""
        name = op[0]
        out = op[1] if len(op) > 1 and (isinstance(op[1], int) or op[1] is None) else None
        try:
            h = getattr(self, "op_" + name, None) or self.ext.get(name)
            if h is None:
                return {"skip": "unknown-op"}
            r = h(op)
            return {"ok": r}
        except Skip as e:
            self.invalidate(out)
            return {"skip": str(e).split(" ")[0]}
        except SystemExit:
            raise
        except BaseException as e:  # noqa: B036  (ArityMismatch derives from BaseException)
            self.invalidate(out)
            return {"raised": type(e).__name__}

    def op_twice(self, op):
        """['twice', None, inner_op]: run the op; if it fails on its own, run it again at once.
        An operation that was aborted must not change what its repetition does: the second
        attempt has to fail the same way."""
        inner = op[2]
        r1 = self.run(inner)
        if "raised" not in r1:
            if "ok" in r1:
                return r1["ok"]
            raise Skip(r1.get("skip", "skip"))
        r2 = self.run(inner)
        return {"first": r1["raised"], "second": r2.get("raised") or ("ok" if "ok" in r2 else "skip")}

    def op_lowstack(self, op):
        """['lowstack', k, inner_op]: run the op itself (its result counts) with the recursion
        limit squeezed to the current depth + k; a RecursionError propagates as the op's
        outcome ('raised')."""
        _, k, inner = op
        h = getattr(self, "op_" + inner[0], None) or self.ext.get(inner[0])
        if h is None:
            raise Skip("unknown-op")
        old = sys.getrecursionlimit()
        sys.setrecursionlimit(faults._depth() + max(8, int(k)))
        try:
            return h(inner)
        finally:
            sys.setrecursionlimit(old)

    # generic construction
    def op_call(self, op):
        _, out, fname, args = op[:4]
        kw = op[4] if len(op) > 4 else {}
        f = resolve(fname)
        a = [self.dec(x) for x in args]
        k = {kk: self.dec(v) for kk, v in kw.items()}
        r = f(*a, **k)
        self.put(out, r)
        return None

    def op_meth(self, op):
        _, out, obj, mname, args = op[:5]
        kw = op[5] if len(op) > 5 else {}
        if mname.startswith("_") and not (mname.startswith("__") and mname.endswith("__")):
            raise Skip("private")
        o = self.dec(obj)
        a = [self.dec(x) for x in args]
        k = {kk: self.dec(v) for kk, v in kw.items()}
        r = getattr(o, mname)(*a, **k)
        self.put(out, r)
        return None

    def op_attr(self, op):
        _, out, obj, aname = op
        o = self.dec(obj)
        self.put(out, getattr(o, aname))
        return None

    def op_lit(self, op):
        _, out, v = op
        self.put(out, self.dec(v))
        return None

    def op_unpack(self, op):
        """['unpack', None, src, [out0, out1, ...]]: spread a sequence over slots."""
        _, _, src, outs = op
        seq = list(self.dec(src))
        for o, v in zip(outs, seq):
            self.put(o, v)
        for o in outs[len(seq) :]:
            self.invalidate(o)
        return len(seq)

    # observations
    def op_obs(self, op):
        _, _, kind, slot = op
        return obs(kind, self.get(slot))

    def op_cmp(self, op):
        _, _, a, b = op
        return bool(self.get(a) == self.get(b))

    def op_inset(self, op):
        """dict/set membership: calls hash and == behind the user's back."""
        _, _, a, members = op
        s = set()
        for m in members:
            s.add(self.get(m))
        return self.get(a) in s

    # transport
    def op_dump(self, op):
        _, _, slot = op[:3]
        proto = op[3] if len(op) > 3 else pickle.HIGHEST_PROTOCOL
        b = pickle.dumps(self.dec(slot) if isinstance(slot, list) else self.get(slot), protocol=proto)
        return {"blob": base64.b64encode(b).decode("ascii")}

    def op_load(self, op):
        _, out, blob = op
        v = pickle.loads(base64.b64decode(blob["blob"]))
        self.put(out, v)
        return None

    def op_dumpall(self, op):
        """['dumpall', None]: one pickle of every live slot (sharing between the objects is
        kept); slots that do not pickle are left out and reported."""
        live = dict(self.slots)
        skipped = []
        for _ in range(3):
            try:
                b = pickle.dumps(live, protocol=pickle.HIGHEST_PROTOCOL)
                return {"blob": base64.b64encode(b).decode("ascii"), "n": len(live), "skipped": sorted(skipped)}
            except BaseException as ex:  # noqa: B036
                if isinstance(ex, (KeyboardInterrupt, RecursionError, MemoryError)):
                    raise
                bad = []
                for k, v in live.items():
                    try:
                        pickle.dumps(v, protocol=pickle.HIGHEST_PROTOCOL)
                    except BaseException:  # noqa: B036
                        bad.append(k)
                if not bad:
                    raise
                for k in bad:
                    live.pop(k)
                skipped += bad
        raise Skip("dumpall")

    def op_loadall(self, op):
        """['loadall', None, {'blob': ...}]: restore the slots of a checkpoint."""
        _, _, blob = op
        live = pickle.loads(base64.b64decode(blob["blob"]))
        for k, v in live.items():
            self.slots[int(k)] = v
        return {"n": len(live)}

    def op_evalrepr(self, op):
        _, out, slot = op
        if self.evalns is None:
            self.evalns = elements.eval_namespace()
            self.evalns.update(self.newtypes)
        v = eval(repr(self.get(slot)), dict(self.evalns))
        self.put(out, v)
        return None

    # history
    def op_bump(self, op):
        """['bump', None, kind, n]: create and discard n counted objects of a kind."""
        _, _, kind, n = op
        if kind == "Mesh":
            v = counter_peek("Mesh")
            return counter_raise("Mesh", v + n)
        cls = _counter_class(kind)
        if kind == "Index":
            for _ in range(n):
                cls()
        else:
            # consume counts exactly as a constructor would
            if cls._counter is None:
                cls._counter = itertools.count()
            for _ in range(n):
                next(cls._counter)
        return counter_peek(kind)

    def op_setctr(self, op):
        _, _, kind, v = op
        return counter_raise(kind, v)

    def op_peekctr(self, op):
        _, _, kind = op
        return counter_peek(kind)

    def op_drop(self, op):
        _, _, slotlist = op
        for s in slotlist:
            self.slots.pop(s, None)
        return None

    def op_gc(self, op):
        gc.collect()
        return None

    def op_exec_demo(self, op):
        _, _, path, outs = op
        forms = exec_demo(path.replace("$REPO", self.repo))
        for o, v in zip(outs, forms):
            self.put(o, v)
        for o in outs[len(forms) :]:
            self.invalidate(o)
        return len(forms)

    def op_integrity(self, op):
        """S2/S3 integrity probe (DESIGN 2, torn-table rule)."""
        return integrity_probe()

    # fault wrapper
    def op_fault(self, op):
        """['fault', kind, param, inner_op]"""
        _, kind, param, inner = op
        iout = inner[1] if len(inner) > 1 and isinstance(inner[1], int) else None
        name = inner[0]
        h = getattr(self, "op_" + name, None) or self.ext.get(name)
        if h is None:
            raise Skip("unknown-op")
        inner_status = "ok"
        # Everything the harness itself does (name resolution, argument decoding) happens
        # outside the fault window, so that warm / cold harness caches cannot move the
        # point where the fault bites; only the UFL call runs inside it.
        if name == "call":
            f = resolve(inner[2])
            a = [self.dec(x) for x in inner[3]]
            k = {kk: self.dec(v) for kk, v in (inner[4] if len(inner) > 4 else {}).items()}

            def body():
                return f(*a, **k)

        elif name == "meth":
            if inner[3].startswith("_") and not (inner[3].startswith("__") and inner[3].endswith("__")):
                raise Skip("private")
            o = self.dec(inner[2])
            a = [self.dec(x) for x in inner[4]]
            k = {kk: self.dec(v) for kk, v in (inner[5] if len(inner) > 5 else {}).items()}
            m = getattr(o, inner[3])

            def body():
                return m(*a, **k)

        else:

            def body():
                return h(inner)

        try:
            if kind in ("interrupt", "memerr"):
                defer = True
                prefixes = self.trace_prefixes
                if isinstance(param, dict):
                    n = param["n"]
                    defer = param.get("defer", True)
                    if "files" in param:
                        prefixes = tuple(self.repo.rstrip("/") + "/ufl/" + f for f in param["files"])
                else:
                    n = param
                status, info, _ = faults.run_with_interrupt(body, n, prefixes, defer=defer, exc=faults.SimMemoryError if kind == "memerr" else None)
            elif kind == "stack":
                status, info, _ = faults.run_with_stack(body, param)
            else:
                raise Skip("fault-kind")
        except Skip:
            status, info, inner_status = "not_run", {}, "skip"
        except SystemExit:
            raise
        except BaseException as e:  # noqa: B036
            # the op failed on its own (or the injected error was translated)
            status, info, inner_status = "raised", {}, type(e).__name__
        # Rule for faulted ops: the output is never used.
        self.invalidate(iout)
        fired = status in ("interrupted", "swallowed", "stack_exhausted")
        res = {"fault": kind, "status": status, "fired": fired, "inner": inner_status}
        if info.get("at"):
            res["at"] = info["at"]
        if info.get("deferred"):
            res["deferred"] = info["deferred"]
        if kind == "stack" and (fired or status == "raised"):
            res["integrity"] = integrity_probe()
        return res


def integrity_probe():
    """Check the interpreter-global intern tables and registry for half-built entries."""
    from ufl.constantvalue import IntValue, Zero
    from ufl.core.multiindex import FixedIndex, MultiIndex
    from ufl.core.ufl_type import UFLType

    bad = []
    for k, v in list(Zero._cache.items()):
        if not hasattr(v, "ufl_shape") or not hasattr(v, "ufl_free_indices"):
            bad.append("Zero")
            break
    for k, v in list(IntValue._cache.items()):
        if not hasattr(v, "_value"):
            bad.append("IntValue")
            break
    for k, v in list(FixedIndex._cache.items()):
        if not hasattr(v, "_value"):
            bad.append("FixedIndex")
            break
    for k, v in list(MultiIndex._cache.items()):
        if not hasattr(v, "_indices"):
            bad.append("MultiIndex")
            break
    n = UFLType._ufl_num_typecodes_
    if not (
        n == len(UFLType._ufl_all_classes_)
        and n == len(UFLType._ufl_obj_init_counts_)
        and n == len(UFLType._ufl_obj_del_counts_)
    ):
        bad.append("registry")
    return bad
