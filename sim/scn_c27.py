"""C27 - algorithms never mutate their inputs (DESIGN 4.4).

One simulated process per run.  A generated pool program (environment, forms, then a
seeded sequence of public algorithms / form operators / comparisons / pickling whose
results join the pool) is executed; the reference model is the immutable snapshot each
object had when it was first seen.  After every algorithm op the snapshots of its inputs
are recomputed (cached accessors *and* from scratch); every 8 algorithm ops and at the
end all live pool objects are re-checked.  Algorithm ops may abort naturally, be
interrupted at a seeded UFL line event or run out of stack.
"""

from sim.framework import Scenario, bypass_candidates
from sim.scn_c12 import SALTS, call_planner

SWEEP_EVERY = 8


FOCUS_FILES = [
    "form.py",
    "integral.py",
    "measure.py",
    "exprequals.py",
    "core/compute_expr_hash.py",
    "algorithms/signature.py",
    "algorithms/compute_form_data.py",
    "algorithms/domain_analysis.py",
    "algorithms/formdata.py",
    "algorithms/apply_integral_scaling.py",
    "algorithms/analysis.py",
    "algorithms/renumbering.py",
    "formoperators.py",
    "algorithms/formtransformations.py",
    "utils/sorting.py",
]


class C27(Scenario):
    pid = "C27"
    arms = {
        "quick": [("fault-free", 5), ("interrupts", 4), ("stack", 2), ("aliasing", 2), ("sweep", 2)],
        "thorough": [("fault-free", 5), ("interrupts", 5), ("stack", 3), ("aliasing", 3), ("long", 2), ("untorn-off", 1), ("sweep", 3)],
    }
    runs = {"quick": 8000, "thorough": 90000}
    wall = {"quick": 90, "thorough": 1300}
    rule = (
        "one run = one generated pool program on one simulated process (seeded salt): environment, 1-3 forms, "
        "then 3-14 steps (long arm: up to 40), each a public algorithm / form operator / comparison / set lookup / "
        "pickle / eval(repr) applied to a pool member (results join the pool, so inputs and outputs share DAG nodes "
        "and Measure metadata dicts); ops may abort naturally, be interrupted at the n-th UFL line event or run out of "
        "stack; distinct = distinct schedule digest; non-trivial = at least one input snapshot re-checked after an "
        "algorithm op that completed or aborted"
    )
    assumptions = [
        "snapshot functions only read (repr, hash, signature cached and recomputed from scratch, arguments, coefficients, constants, integral metadata, metadata dict items)",
        "an interrupt is deferred while a flyweight constructor or @ufl_type registration is on the stack; runs whose interpreter-global intern tables were torn by a stack fault are reported as observations only",
    ]

    def generate(self, rng, arm, tier, zpool):
        cfg = {"families": {"flat": True}, "abort_p": 0.5, "single_pass": True, "md_degree": True}
        if arm == "long":
            cfg["n_steps"] = rng.randint(15, 40)
        if arm == "aliasing":
            cfg["n_forms"] = rng.randint(2, 3)
        if arm == "sweep":
            return self.generate_sweep(rng, zpool)
        P = call_planner(zpool, {"kind": "pool", "seed": rng.getrandbits(40), "cfg": cfg})
        units = []
        step_of = {}
        for si, (a, b, inputs) in enumerate(P["steps"]):
            for i in range(a, b):
                step_of[i] = (si, inputs)
        for i, op in enumerate(P["ops"]):
            if i in step_of:
                si, inputs = step_of[i]
                u = {"k": "alg", "n": 0, "op": op, "step": si, "inputs": inputs}
                if arm in ("interrupts", "stack", "untorn-off", "long") and op[0] in ("call", "meth", "roundtrip", "cmp", "inset", "obs") and rng.random() < (0.35 if arm != "long" else 0.15):
                    if arm == "stack" or (arm == "long" and rng.random() < 0.3):
                        u["op"] = ["fault", "stack", int(10 ** rng.uniform(0.5, 2.5)), op]
                    else:
                        n = int(10 ** rng.uniform(0, 5.3))
                        par = {"n": n, "defer": arm != "untorn-off"}
                        if rng.random() < 0.35:
                            # file-focused: the n-th line event inside one state-carrying module
                            par = {"n": int(10 ** rng.uniform(0, 2.5)), "defer": arm != "untorn-off", "files": [rng.choice(FOCUS_FILES)]}
                        u["op"] = ["fault", rng.choice(["interrupt", "interrupt", "memerr"]), par, op]
                elif arm in ("fault-free", "aliasing", "long") and op[0] == "call" and isinstance(op[2], str) and (op[2].startswith("ufl.") or op[2].startswith("sim.ops.")) and rng.random() < 0.4:
                    # if the algorithm fails on its own it is repeated at once (clause M4)
                    u["op"] = ["twice", None, op]
                units.append(u)
            else:
                units.append({"k": "setup", "n": 0, "op": op})
        lo = 1
        hi = P["next"] + 10
        return {"nodes": [{"salt": rng.choice(SALTS)}], "units": units, "range": [lo, hi], "observe_only": arm == "untorn-off"}

    def generate_sweep(self, rng, zpool):
        """Crash-point enumeration: the same small form is built K times from scratch and its
        FIRST analysis (signature / hash / arguments / numbering / compute_form_data) is cut
        short at the 1st, 2nd, ..., K-th line event inside one state-carrying module; the
        final full snapshots cross-check the cached accessors of every copy against a fresh
        form over the same integrals (clause M3) and its metadata against the user's dicts."""
        from sim.scn_c12 import remap

        P = call_planner(zpool, {"kind": "pool", "seed": rng.getrandbits(40), "cfg": {"families": {"flat": True}, "n_forms": 1, "n_steps": 1, "depth": 2, "abort_p": 0.0, "formsum_p": 0.0, "matrix_p": 0.0, "bfo_form_p": 0.0, "msq_p": 0.0}})
        base_ops = [op for op in P["ops"][: P["setup_len"]] if op[0] in ("call", "meth", "attr", "lit", "unpack")]
        forms = [f[0] for f in P["forms"]]
        if not forms:
            return {"nodes": [{"salt": 0}], "units": [], "range": [1, 2], "observe_only": False}
        f = forms[0]
        fname = rng.choice(FOCUS_FILES[:9])
        kind = rng.choice(["interrupt", "interrupt", "memerr"])
        first = rng.randint(1, 40)
        K = rng.randint(25, 70)
        off = P["next"] + 10
        units = []
        for i in range(K):
            o = off * i
            for op in base_ops:
                units.append({"k": "setup", "n": 0, "op": remap(op, o) if o else op})
            t = rng.randrange(6)
            fo = f + o
            if t == 0:
                target = ["obs", None, "sig", fo]
            elif t == 1:
                target = ["obs", None, rng.choice(["hash", "args", "coeffs", "str"]), fo]
            elif t == 2:
                target = ["meth", off * K + 100 + i, ["$", fo], rng.choice(["coefficient_numbering", "terminal_numbering", "domain_numbering", "ufl_domains", "constants", "subdomain_data"]), []]
            elif t == 3:
                target = ["call", off * K + 100 + i, "sim.ops.form_data", [["$", fo]]]
            elif t == 4:
                target = ["call", off * K + 100 + i, rng.choice(["ufl.algorithms.expand_derivatives", "operator.neg", "ufl.algorithms.renumbering.renumber_indices"]), [["$", fo]]]
            else:
                target = ["cmp", None, fo, fo]
            units.append({"k": "alg", "n": 0, "op": ["fault", kind, {"n": first + i, "defer": True, "files": [fname]}, target], "step": i + 1, "inputs": [fo]})
        return {"nodes": [{"salt": rng.choice(SALTS)}], "units": units, "range": [1, off * K + 200 + K], "observe_only": False, "sweep": True}

    def expand(self, plan):
        """Objects are first observed *cold* (nothing that fills a lazy cache of the object
        itself), so that algorithms also meet inputs whose caches were never filled; the
        inputs of every algorithm op are re-observed cold right after it; full snapshots
        (cached accessors, cross-checked against from-scratch values) are taken every
        SWEEP_EVERY algorithm ops and at the end."""
        steps, uos = [], []
        lo, hi = plan["range"]
        nalg = 0
        seen_setup_end = False
        for ui, u in enumerate(plan["units"]):
            if u["k"] == "alg" and not seen_setup_end:
                seen_setup_end = True
                steps.append([0, ["snapall", None, lo, hi, True]])
                uos.append(ui)
            steps.append([0, u["op"]])
            uos.append(ui)
            if seen_setup_end and u["op"][0] == "lit" and isinstance(u["op"][1], int):
                # a user container made inside a step: observe it before the call it is made for
                steps.append([0, ["snap", None, [u["op"][1]], True]])
                uos.append(ui)
            if u["k"] == "alg":
                nalg += 1
                steps.append([0, ["snap", None, u["inputs"], True]])
                uos.append(ui)
                if nalg % SWEEP_EVERY == 0:
                    steps.append([0, ["snapall", None, lo, hi]])
                    uos.append(ui)
        steps.append([0, ["snapall", None, lo, hi]])
        uos.append(max(0, len(plan["units"]) - 1))
        return {"nodes": plan["nodes"], "steps": steps, "unit_of_step": uos}

    def check(self, plan, xp, history):
        uos = xp["unit_of_step"]
        units = plan["units"]
        model = {}
        viols = []
        faults = {"interrupt": {"configured": 0, "fired": 0}, "memerr": {"configured": 0, "fired": 0}, "stack": {"configured": 0, "fired": 0}, "abort": {"configured": 0, "fired": 0}}
        probes = {
            "snapshots_compared": 0,
            "objects_tracked": 0,
            "alg_ops_completed": 0,
            "alg_ops_aborted_naturally": 0,
            "op_aborted_in_arity_check": 0,
            "interrupt_deferred_in_constructor": 0,
            "interrupt_swallowed_by_ufl": 0,
            "torn_tables_after_stack_fault": 0,
            "metadata_dicts_tracked": 0,
            "aborted_op_repeated": 0,
        }
        torn = bool(plan.get("observe_only"))
        last_alg = None
        reported = set()
        for ev in history:
            si, node, op, r = ev
            if si < 0:
                continue
            ui = uos[si]
            name = op[0]
            if name in ("snap", "snapall"):
                snaps = r.get("ok")
                if not isinstance(snaps, dict):
                    continue
                for slot, snap in snaps.items():
                    cc = snap.get("cachecheck")
                    if cc not in (None, "ok") and ("cc", slot) not in reported:
                        reported.add(("cc", slot))
                        v = {
                            "clause": "M3-cached-accessor-disagrees-with-integrals",
                            "unit": ui,
                            "fingerprint": cc,
                            "detail": {"slot": int(slot), "fields": cc, "after_op": last_alg},
                        }
                        if torn:
                            v["beyond"] = True
                            v["clause"] = "beyond:" + v["clause"]
                        viols.append(v)
                    if slot not in model:
                        model[slot] = dict(snap)
                        probes["objects_tracked"] += 1
                        if "items" in snap:
                            probes["metadata_dicts_tracked"] += 1
                        continue
                    probes["snapshots_compared"] += 1
                    if snap.get("cyclic") or model[slot].get("cyclic"):
                        common = set(snap) | set(model[slot])
                    else:
                        common = set(snap) & set(model[slot])
                    for k in set(snap) - set(model[slot]):
                        model[slot][k] = snap[k]  # first full observation of a field
                    common.discard("cachecheck")
                    if any(snap.get(k) != model[slot].get(k) for k in common) and slot not in reported:
                        reported.add(slot)
                        fields = sorted(k for k in common if snap.get(k) != model[slot].get(k))
                        v = {
                            "clause": "M1-input-mutated" if "items" not in snap else "M2-metadata-dict-mutated",
                            "unit": ui,
                            "fingerprint": ",".join(fields),
                            "detail": {"slot": int(slot), "fields": fields, "after_op": last_alg, "before": {k: model[slot].get(k) for k in fields}, "after": {k: snap.get(k) for k in fields}},
                        }
                        if torn:
                            v["beyond"] = True
                            v["clause"] = "beyond:" + v["clause"] + "-after-torn-intern-table"
                        viols.append(v)
                continue
            if units[ui]["k"] != "alg":
                continue
            if name == "fault":
                kind = op[1]
                faults[kind]["configured"] += 1
                v = r.get("ok") or {}
                if v.get("fired"):
                    faults[kind]["fired"] += 1
                if v.get("deferred"):
                    probes["interrupt_deferred_in_constructor"] += 1
                if v.get("status") == "swallowed":
                    probes["interrupt_swallowed_by_ufl"] += 1
                if v.get("integrity"):
                    torn = True
                    probes["torn_tables_after_stack_fault"] += 1
                last_alg = _opname(op[3]) + "[" + kind + "]"
            elif name == "twice":
                last_alg = _opname(op[2])
                faults["abort"]["configured"] += 1
                v = r.get("ok")
                if isinstance(v, dict) and "first" in v and "second" in v:
                    faults["abort"]["fired"] += 1
                    probes["alg_ops_aborted_naturally"] += 1
                    probes["aborted_op_repeated"] = probes.get("aborted_op_repeated", 0) + 1
                    if v["first"] != v["second"] and ("M4", last_alg) not in reported:
                        reported.add(("M4", last_alg))
                        viols.append({"clause": "M4-repetition-of-aborted-op-differs", "unit": ui, "fingerprint": last_alg, "detail": {"op": last_alg, "first": v["first"], "second": v["second"]}})
                elif "ok" in r:
                    probes["alg_ops_completed"] += 1
            else:
                last_alg = _opname(op)
                faults["abort"]["configured"] += 1
                if "raised" in r:
                    faults["abort"]["fired"] += 1
                    probes["alg_ops_aborted_naturally"] += 1
                    if r["raised"] == "ArityMismatch":
                        probes["op_aborted_in_arity_check"] += 1
                elif "ok" in r:
                    probes["alg_ops_completed"] += 1
        state = {"salt": plan["nodes"][0]["salt"], "tracked": min(40, probes["objects_tracked"]) // 5, "torn": torn}
        return viols, {"faults": faults, "probes": probes, "state": state, "nontrivial": probes["snapshots_compared"] > 0 and (probes["alg_ops_completed"] + probes["alg_ops_aborted_naturally"]) > 0}

    def simplify(self, plan, phase="post", target=None):
        units = plan["units"]
        if phase == "pre" and target is not None and isinstance(target.get("detail"), dict) and "slot" in target["detail"]:
            # keep what builds the mutated object; algorithm steps are left to ddmin
            from sim.framework import slice_candidate

            q = slice_candidate(plan, [target["detail"]["slot"]], is_program=lambda u: u["k"] == "setup")
            if q is not None:
                yield q
        if phase == "pre":
            if plan["nodes"][0]["salt"] != 0:
                q = dict(plan)
                q["nodes"] = [dict(plan["nodes"][0], salt=0)]
                yield q
            return
        for i, u in enumerate(units):
            if u["op"][0] == "fault":
                q = dict(plan)
                q["units"] = units[:i] + [dict(u, op=u["op"][3])] + units[i + 1 :]
                yield q
        for i, u in enumerate(units):
            if u["op"][0] == "fault" and u["op"][1] in ("interrupt", "memerr"):
                p = u["op"][2]
                n = p["n"] if isinstance(p, dict) else p
                for n2 in (n // 2, n - 1):
                    if 0 < n2 < n:
                        q = dict(plan)
                        p2 = dict(p, n=n2) if isinstance(p, dict) else n2
                        q["units"] = units[:i] + [dict(u, op=["fault", u["op"][1], p2, u["op"][3]])] + units[i + 1 :]
                        yield q
        yield from bypass_candidates(plan)


def _opname(op):
    if op[0] in ("call",):
        return str(op[2])
    if op[0] == "meth":
        return "." + str(op[3])
    return op[0]
