"""Scenario registry."""


def get(pid):
    if pid == "C20":
        from sim.scn_c20 import C20

        return C20()
    if pid == "C12":
        from sim.scn_c12 import C12

        return C12()
    if pid == "C13":
        from sim.scn_c13 import C13

        return C13()
    if pid == "C27":
        from sim.scn_c27 import C27

        return C27()
    raise KeyError(pid)


ALL = ["C12", "C13", "C20", "C27"]
