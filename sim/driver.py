"""Driver side: zygote management and lock-step plan execution (DESIGN 2)."""

import hashlib
import json
import os
import select
import signal
import struct
import subprocess
import sys
import time

HERE = os.path.dirname(os.path.abspath(__file__))
VERIF = os.path.dirname(HERE)
PY = os.environ.get("VERIF_PYTHON", "/venv/bin/python")
REPO = os.environ.get("VERIF_REPO", "/repo")

_SETARCH = None


def have_setarch():
    global _SETARCH
    if _SETARCH is None:
        try:
            _SETARCH = (
                subprocess.run(
                    ["setarch", "-R", "true"], stdout=subprocess.DEVNULL, stderr=subprocess.DEVNULL
                ).returncode
                == 0
            )
        except OSError:
            _SETARCH = False
    return _SETARCH


class NodeDied(Exception):
    pass


class NodeTimeout(Exception):
    pass


class HarnessError(Exception):
    pass


class Zygote:
    """One interpreter with a fixed PYTHONHASHSEED that forks nodes on demand."""

    def __init__(self, salt, repo=None):
        self.salt = salt
        self.repo = repo or REPO
        env = dict(os.environ)
        env["PYTHONHASHSEED"] = str(salt)
        env["VERIF_REPO"] = self.repo
        env["PYTHONDONTWRITEBYTECODE"] = "1"
        env.pop("PYTHONPATH", None)
        cmd = [PY, "-X", "faulthandler", os.path.join(HERE, "node.py")]
        if have_setarch():
            cmd = ["setarch", "-R"] + cmd
        self.p = subprocess.Popen(
            cmd,
            stdin=subprocess.PIPE,
            stdout=subprocess.PIPE,
            stderr=subprocess.DEVNULL,
            env=env,
            bufsize=0,
            start_new_session=True,
            cwd="/",
        )
        self.fd_in = self.p.stdin.fileno()
        self.fd_out = self.p.stdout.fileno()
        self.active = False
        hello = self._rd(60)
        if "ready" not in hello:
            self.kill()
            raise HarnessError(f"zygote failed: {hello}")

    def _wr(self, o):
        b = json.dumps(o, separators=(",", ":")).encode()
        b = struct.pack("<I", len(b)) + b
        try:
            while b:
                k = os.write(self.fd_in, b)
                b = b[k:]
        except (BrokenPipeError, OSError):
            raise NodeDied("pipe")

    def _rdn(self, n, deadline):
        chunks = []
        got = 0
        while got < n:
            t = deadline - time.monotonic()
            if t <= 0:
                raise NodeTimeout()
            r, _, _ = select.select([self.fd_out], [], [], t)
            if not r:
                raise NodeTimeout()
            c = os.read(self.fd_out, min(1 << 20, n - got))
            if not c:
                raise NodeDied("eof")
            chunks.append(c)
            got += len(c)
        return b"".join(chunks)

    def _rd(self, timeout):
        deadline = time.monotonic() + timeout
        h = self._rdn(4, deadline)
        n = struct.unpack("<I", h)[0]
        return json.loads(self._rdn(n, deadline))

    def fork(self, inproc=False):
        assert not self.active
        self._wr({"z": "inproc" if inproc else "fork"})
        self.active = True

    def op(self, op, timeout=20.0):
        assert self.active
        self._wr({"op": op})
        m = self._rd(timeout)
        if "died" in m:
            self.active = False
            raise NodeDied(str(m["died"]))
        return m["r"]

    def end(self):
        if not self.active:
            return
        self._wr({"end": 1})
        m = self._rd(10)
        self.active = False
        if "bye" not in m:
            raise NodeDied(str(m))

    def alive(self):
        return self.p.poll() is None

    def kill(self):
        try:
            os.killpg(self.p.pid, signal.SIGKILL)
        except (ProcessLookupError, PermissionError):
            pass
        try:
            self.p.kill()
        except Exception:
            pass
        try:
            self.p.wait(timeout=5)
        except Exception:
            pass
        for f in (self.p.stdin, self.p.stdout):
            try:
                f.close()
            except Exception:
                pass


class ZygotePool:
    """Zygotes owned by one worker process; several instances per salt when a run needs
    more than one live node with the same salt."""

    def __init__(self, repo=None, limit=24, inproc=False):
        self.inproc = inproc
        self.repo = repo or REPO
        self.free = {}  # salt -> [Zygote]
        self.count = 0
        self.limit = limit
        self.started = 0

    def acquire(self, salt):
        lst = self.free.get(salt)
        while lst:
            z = lst.pop()
            if z.alive() and not z.active:
                return z
            z.kill()
            self.count -= 1
        if self.count >= self.limit:
            self._evict()
        z = Zygote(salt, self.repo)
        self.count += 1
        self.started += 1
        return z

    def release(self, z):
        if z.active or not z.alive():
            z.kill()
            self.count -= 1
            return
        self.free.setdefault(z.salt, []).append(z)

    def discard(self, z):
        z.kill()
        self.count -= 1

    def _evict(self):
        for salt in list(self.free):
            lst = self.free[salt]
            while lst:
                lst.pop().kill()
                self.count -= 1
                if self.count < self.limit:
                    return

    def close(self):
        for lst in self.free.values():
            for z in lst:
                try:
                    z._wr({"z": "quit"})
                except Exception:
                    pass
                z.kill()
        self.free = {}
        self.count = 0


def canon(o):
    return json.dumps(o, sort_keys=True, separators=(",", ":"))


def digest_history(history):
    h = hashlib.sha256()
    for ev in history:
        h.update(canon(ev).encode())
        h.update(b"\n")
    return h.hexdigest()


class Inconclusive(Exception):
    """A run that could not be completed (timeout / dead node): never pass, never violation."""


def execute(plan, zpool, op_timeout=30.0, on_event=None):
    """Execute a plan in lock-step; returns the history: list of [step, node, op, result].

    Driver-level ops:  ['send', name, slot]  (pickle on the node, blob kept by the driver)
                       ['recv', out, name]   (deliver a stored blob to a node)
                       ['crash']             (kill the node, re-fork it from its zygote)
    """
    nodes = []
    history = []
    store = {}
    try:
        for nc in plan["nodes"]:
            z = zpool.acquire(nc["salt"])
            z.fork(zpool.inproc)
            nodes.append(z)
        for i, nc in enumerate(plan["nodes"]):
            for op in nc.get("init", []):
                r = nodes[i].op(op, op_timeout)
                history.append([-1, i, op, r])
        for si, (ni, op) in enumerate(plan["steps"]):
            z = nodes[ni]
            name = op[0]
            if name == "crash":
                z.end()
                if len(op) > 1 and op[1] is not None and op[1] != z.salt:
                    # the process comes back on another interpreter (other hash salt)
                    zpool.release(z)
                    z = zpool.acquire(op[1])
                    nodes[ni] = z
                z.fork(zpool.inproc)
                for op2 in plan["nodes"][ni].get("reinit", []):
                    z.op(op2, op_timeout)
                r = {"ok": "restarted"}
            elif name == "send":
                r = z.op(["dump", None, ["$", op[2]]] + list(op[3:]), op_timeout)
                if "ok" in r and isinstance(r["ok"], dict) and "blob" in r["ok"]:
                    blob = r["ok"]["blob"]
                    store[op[1]] = blob
                    r = {"ok": {"sha": hashlib.sha1(blob.encode()).hexdigest()[:16], "len": len(blob)}}
            elif name == "sendall":
                r = z.op(["dumpall", None], op_timeout)
                if "ok" in r and isinstance(r["ok"], dict) and "blob" in r["ok"]:
                    store[op[1]] = r["ok"]["blob"]
                    r = {"ok": {"n": r["ok"]["n"], "skipped": r["ok"]["skipped"], "len": len(r["ok"]["blob"])}}
            elif name == "recvall":
                blob = store.get(op[1])
                if blob is None:
                    r = {"skip": "noblob"}
                else:
                    r = z.op(["loadall", None, {"blob": blob}], op_timeout)
            elif name == "recv":
                blob = store.get(op[2])
                if blob is None:
                    r = {"skip": "noblob"}
                else:
                    r = z.op(["load", op[1], {"blob": blob}], op_timeout)
            else:
                r = z.op(op, op_timeout)
            ev = [si, ni, op, r]
            history.append(ev)
            if on_event is not None:
                on_event(ev)
        for z in nodes:
            z.end()
        for z in nodes:
            zpool.release(z)
        nodes = []
        return history
    except (NodeDied, NodeTimeout) as e:
        raise Inconclusive(type(e).__name__ + ":" + str(e))
    finally:
        for z in nodes:
            zpool.discard(z)
